#!/venv/bin/python
"""Regenerates MANIFEST.json from the table below (kept next to the checks so that the
manifest never drifts from what exists)."""
import json, os
V = os.path.dirname(os.path.dirname(os.path.abspath(__file__)))
ids = [json.loads(l)["id"] for l in open(os.path.join(V, "properties.jsonl"))]

PYSYM_NOTE = ("Trusted base: z3 5.1 (python wheel in /venv); the pysym engine (/verif/vlib/pysym.py, linear-form proxies, "
              "every branch decided by z3, unsupported operations abort the check); builtin shadows utils.type/int/round that "
              "are the identity on concrete values; null loggers; float model: int*float by an integral factor is exact below 2^53 "
              "(obligation discharged per path). Per-path symbolic results are cross-validated by re-running sampled paths with "
              "plain ints on the unmodified code, and every counterexample is replayed concretely in a fresh process before it is reported.")

CHECKS = {
 "C16": dict(level="model_checking", design="3/C16",
   text="All feasible paths of the real EventTime operators and EventQueue methods are enumerated with symbolic integer operands "
        "(every unit combination, |value| < 2^53 us) and symbolic event times/types; each algebraic law and each pop-is-minimum obligation "
        "is a z3 query over the path condition. Bounded: <=3 operands, <=3 (quick) / 4 (thorough) queued events, enumerated operation scripts.",
   technique="symbolic execution of the real Python (own z3-backed path explorer), bounded"),
}

NA_REASON = "check not built yet (build in progress, see DESIGN.md section 5)"

m = {
 "version": 1,
 "setup_cmd": "cd /verif && ./tools/setup.sh",
 "hooks": {"guard": "ERDOS_SIM_VERIF", "enable": "no source hooks: all stubs are installed from the harness at import time (module-global shadows, class-level wrappers)",
           "baseline_off_cmd": "cd /repo && /venv/bin/python -m pytest -ra -q -p no:cacheprovider --timeout=900 --continue-on-collection-errors",
           "source_commits": [], "add_only": True},
 "engines": [
   {"name": "pysym", "path": "vlib/pysym.py", "serves_properties": sorted(k for k, v in CHECKS.items() if v.get("engine", "pysym") == "pysym"),
    "kind_free_text": "path-exploring symbolic executor for the repository's real Python functions; SNum/SBool proxies carry linear forms over z3 variables, z3 decides every branch and obligation; DFS with re-execution; process-parallel over worlds and path-prefix subtrees"},
 ],
 "checks": [],
 "notes": "All checks: ./check <ID> [--tier quick|thorough]; exit 0 held / 1 reproduced violation / 3 harness error or inconclusive. Known findings: known_findings.json.",
 "not_applicable": [],
}
for i in ids:
    if i in CHECKS:
        c = CHECKS[i]
        m["checks"].append({
            "property_id": i,
            "quick_cmd": f"./check {i} --tier quick",
            "thorough_cmd": f"./check {i} --tier thorough",
            "evidence_file": f"/verif/evidence/{i}.json",
            "replay_cmd_template": f"./check {i} --replay {{path}}",
            "engine": c.get("engine", "pysym"),
            "level_claimed": {"category": c["level"], "text": c["text"], "design_ref": c["design"]},
            "level_note": c.get("note", PYSYM_NOTE),
            "technique": c["technique"],
        })
    else:
        m["not_applicable"].append({"property_id": i, "reason": NA_REASON})
json.dump(m, open(os.path.join(V, "MANIFEST.json"), "w"), indent=1)
print("checks:", [c["property_id"] for c in m["checks"]])
