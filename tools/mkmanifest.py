#!/venv/bin/python
"""Regenerates MANIFEST.json from the table below (kept next to the checks so that the
manifest never drifts from what exists)."""
import json, os
V = os.path.dirname(os.path.dirname(os.path.abspath(__file__)))
ids = [json.loads(l)["id"] for l in open(os.path.join(V, "properties.jsonl"))]

PYSYM_NOTE = ("Trusted base: z3 5.1 (python wheel in /venv); the pysym engine (/verif/vlib/pysym.py, linear-form proxies, "
              "every branch decided by z3, unsupported operations abort the check); builtin shadows utils.type/int/round that "
              "are the identity on concrete values; null loggers; float model: int*float by an integral factor is exact below 2^53 "
              "(obligation discharged per path). Per-path symbolic results are cross-validated by re-running sampled paths with "
              "plain ints on the unmodified code, and every counterexample is replayed concretely in a fresh process before it is reported.")

SIM_NOTE = PYSYM_NOTE + (" Whole-run checks: the real Simulator.simulate() is executed; a passive monitor (class-level wrappers installed from the harness) keeps its own ledger. "
            "Planner policies that need a numeric solver are represented by a solver-driven 'Havoc' policy restricted to the per-decision contract of C10.")

def sim(text, ref):
    return dict(level="model_checking", design=ref, text=text, note=SIM_NOTE,
                technique="symbolic execution of the real Simulator.simulate() (own z3-backed path explorer) over bounded worlds with symbolic numerics")

CHECKS = {
 "C01": sim("Every feasible path of whole simulation runs over a covering list of small worlds (2-3 tasks, 1-2 workers/pools, several resource instances and types, named instances with pinned requests, greedy policies and the solver-driven plan-ahead policy) "
            "with symbolic capacities, demands and times; after every placement, event and clock step z3 proves ledger demand <= capacity for every worker and resource.", "3/C01"),
 "C02": sim("Every feasible path of whole runs over chains, forks, joins, skip-diamonds and conditionals under greedy and plan-ahead (lookahead / release_taskgraphs / retraction) policies; "
            "at every Task.start z3 proves start >= (declared) release and all predecessors completed by then; start/finish at most once.", "3/C02"),
 "C03": sim("Every feasible path of whole runs with symbolic runtimes, releases, scheduler frequency/delay and plan-ahead placements (same-microsecond finish/placement coincidences under both name orders, re-planning with another strategy); "
            "z3 proves completion = start + runtime of the applied strategy, release of resources at that instant, monotone clock, events handled at their time, start >= chosen time and = chosen time unless justified by the monitor's own ledger.", "3/C03"),
 "C04": dict(level="model_checking", design="3/C04",
   text="(a) one inductive step of every Resources operation from an arbitrary API-built state with symbolic quantities (several instances of a type, 'any' and specific requests); "
        "(b) all histories of <=3 (quick) / 4 (thorough) Worker / WorkerPool operations chosen by the solver, symbolic demands and capacities, checked against an independent ledger, refusal atomicity, copy/deepcopy independence, drain-restores-capacity.",
   technique="symbolic execution of the real Python (own z3-backed path explorer), bounded histories"),
 "C05": sim("Every feasible path of whole runs under a derived step budget: zero-length tasks, equal-time releases, symbolic loop timeout, frequency, delay, run-at-worker-free, heterogeneous workers with 1-us retries, non-zero scheduler runtime; "
            "z3 proves SIMULATOR_END is reached by the timeout, feasible work completes under work-conserving policies and no runnable released work is left. Three reproduced defects are listed as known findings.", "3/C05"),
 "C06": sim("Every feasible path of whole runs with deadline enforcement, drop_skipped_tasks, solver-driven cancellation / skipping / re-planning over chains, forks, joins, diamonds with skip edges and 2/3-way conditionals; "
            "every lifecycle call is checked against the legal transition relation and the cancellation closure (least fixpoint computed by the monitor) must equal the set of tasks reported CANCELLED.", "3/C06"),
 "C07": sim("Every feasible path (every branch draw is a solver choice among the non-zero-weight children) of whole runs over 2/3-way, uneven, nested and serial conditionals, incl. resolution at submission through the real JobGraph._generate_task_graph; "
            "at the end exactly one child per completed conditional was released, untaken branches up to the matching join are CANCELLED and never started, everything else completed exactly once.", "3/C07"),
 "C08": sim("Every feasible path of whole runs that finish, miss deadlines (symbolic deadlines incl. ties), cancel and time out; the CSV logger is replaced by a row-capturing logger whose symbolic cells are tokens mapped back to z3 terms; "
            "z3 compares every SIMULATOR_END counter and every TASK_* / SCHEDULER_* cell with what the monitor observed, then the real CSVReader.parse_events runs on the same rows and its reconstruction is compared with the run.", "3/C08"),
 "C19": dict(level="model_checking", design="3/C19",
   text="The real WorkloadLoader / WorkerLoader constructors run on description trees whose integers are solver variables (only file opening and json/yaml parsing are stubbed); every job, edge, per-node field, strategy, resource key and release-policy parameter is compared by z3 with the description; "
        "the real release-time generation (all five policies), task-graph instantiation, closed-loop re-release and deadline fuzzing run symbolically and are compared with their definitions (deadline enclosure with +-1 rounding slack).",
   technique="symbolic execution of the real loaders and release policies (own z3-backed path explorer) over symbolic description integers"),
 "C09": sim("Non-interference by self-composition: on every feasible path the same world (same symbolic inputs, same seed, seeds {0,1,42} in the thorough tier) is simulated twice under two environments - wall-clock readings, draws of generators built without a seed or seeded from a string hash / pre-seed global state, and the iteration order of string sets all differ - "
            "and z3 proves the two CSV traces equal cell by cell (measured scheduler duration masked). Worlds: conditionals, branch prediction draws, deadline and runtime variance, two-resource pools, Poisson arrivals (policy given / not given the seed), and the real entry point main.main() on a repository profile under both log-file modes.", "3/C09"),
 "C10": dict(level="model_checking", design="3/C10", engine="pysym+mip2smt", note=PYSYM_NOTE + " Planner part: gurobipy.Model subclass / docplex / z3.Optimize capture inside the real schedule(); translation of linear, bilinear, indicator and AND constraints to z3 (anything else aborts); read-back relation validated on every instance against the real get_placements().",
   text="Greedy policies: every feasible path of the real EDF/FIFO/LSF schedule() on API-built mixed states (released + running + scheduled-for-later tasks, heterogeneous pools, symbolic numerics): one decision per offered task, existing pool, own strategy, time >= now/release, first-fit replay within capacity, live state untouched. "
        "Planners (ILP, TetriSched-Gurobi/CPLEX, Z3): schedule() must return; over ALL solutions of the captured model z3 proves start >= now/release and no worker over capacity at any start instant; returned plan re-checked concretely.",
   technique="symbolic execution of real schedule() (pysym) + all-solutions queries over the captured MIP model (mip2smt)"),
 "C11": dict(level="translation_validation", design="3/C11", engine="mip2smt", note="Trusted base: z3; gurobipy (restricted licence) / z3 as used by the schedulers; the translator vlib/mip2smt.py (linear, bilinear, indicator, AND; anything else aborts); read-back relation taken from the scheduler's own variable tables and validated per instance by fixing the real model to a z3 solution and calling the real get_placements(). Instance numerics are concrete.",
   text="For every instance of a bounded family (DAGs <=3/4 tasks offered wholly or behind a RUNNING / SCHEDULED / COMPLETED prefix, 1-2 workers, 1-2 strategies) the model built by the real ILP / TetriSched-Gurobi / Z3 scheduler is captured and, for every (child, predecessor) pair, "
        "z3 proves that NO feasible solution places the child without / before its predecessor (start(child) >= start(pred)+runtime(chosen), or >= expected finish of a running predecessor).",
   technique="all-solutions SMT queries over the MIP/SMT model captured from the real scheduler (translation validated per instance)"),
 "C12": dict(level="model_checking", design="3/C12", engine="pysym+mip2smt", note=PYSYM_NOTE + " Planner part as for C11.",
   text="Admission: every feasible path of the real EDF / FIFO schedule() and of TetriSched-CPLEX's admission block with symbolic now/release/deadline/runtimes: hopeless <=> CANCEL, never PLACE, boundary admitted. "
        "Planners (ILP task-by-task, TetriSched-Gurobi, TetriSched-CPLEX): over ALL solutions of the captured model no placement cell finishes after the deadline; hopeless tasks are unplaced in every solution.",
   technique="symbolic execution of real schedule() (pysym) + all-solutions queries over the captured MIP model (mip2smt)"),
 "C13": dict(level="model_checking", design="3/C13",
   text="One real schedule() call of EDF/FIFO/LSF on API-constructed states: 2-3 (quick) / 4 (thorough) released tasks with symbolic deadlines (mixed units), releases, runtimes, demands, 1-3 single-worker pools with symbolic capacity and an optional running task; "
        "all orderings/ties are paths; for every unplaced task, strategy and pool z3 proves the strategy does not fit what the higher-or-equal-priority placements leave.",
   technique="symbolic execution of the real Python (own z3-backed path explorer), bounded"),
 "C18": sim("At every scheduler invocation of every explored whole run (greedy and solver-driven plan-ahead policies, chains/joins/conditionals) the real Workload.get_schedulable_tasks is evaluated on the live state and compared with its definition; "
            "lookahead / release_taskgraphs monotonicity is a two-call relational query with symbolic lookaheads; every notify_task_completion result is compared with the ready-children set.", "3/C18"),
 "C14": dict(level="translation_validation", design="3/C14", engine="mip2smt", note="Trusted base: z3 (Optimize for the two optima per instance), gurobipy / docplex as used by the schedulers, translator vlib/mip2smt.py; the reference semantics in checks/c14.py (independent of the scheduler code; ILP time conventions stated in the evidence). Instance numerics concrete.",
   text="ILP (goodput goal): for every instance of the bounded family the optimum of the captured model (z3.Optimize over the translated constraints) must equal the optimum of an independent SMT reference of 'feasible plan', and the plan Gurobi returned must attain it; instances where only the exact per-instant reference is higher are the documented conservativeness of the ILP capacity row (known finding). "
        "TetriSched-Gurobi/CPLEX: over every solution whose objective equals the optimum z3 proves that no offered unplaced task can be added at any allowed (slot, worker, strategy) within capacity/release/deadline; the returned plan is re-checked concretely.",
   technique="differential SMT optimisation: captured MIP model vs independent reference; all-optimal-solutions maximality queries"),
 "C15": sim("The real ClockworkScheduler object lives across all schedule() calls of whole simulated runs (2-4 requests over 1-2 models, batch sizes {1,2} in both orders, symbolic runtimes/releases/deadlines, models pre-loaded by the harness, both goals); "
            "every returned Placements object is judged by z3 against the monitor's ledger: one model per batch, size == batch_size, model loaded and strategy fits, now + runtime <= every deadline, no request placed twice, cancel <=> hopeless.", "3/C15"),
 "C16": dict(level="model_checking", design="3/C16",
   text="All feasible paths of the real EventTime operators and EventQueue methods are enumerated with symbolic integer operands "
        "(every unit combination, |value| < 2^53 us) and symbolic event times/types; each algebraic law and each pop-is-minimum obligation "
        "is a z3 query over the path condition. Bounded: <=3 operands, <=3 (quick) / 4 (thorough) queued events of mixed types, plus single-type heaps of 6-7 events, enumerated operation scripts.",
   technique="symbolic execution of the real Python (own z3-backed path explorer), bounded"),
 "C17": dict(level="model_checking", design="3/C17",
   text="Edges are solver booleans (every labelled digraph on 3 nodes incl. cycles, every 4-node DAG under 3 insertion orders, bounded 5-node DAGs; thorough: all 4096 4-node digraphs, all 5-node DAGs, bounded 6-node), "
        "node weights symbolic positive integers (mixed time units); the real Graph/TaskGraph/JobGraph routines run on every feasible path and z3 compares them with reference definitions (all source-sink paths enumerated per structure); one world re-queries after add_node / add_child / remove.",
   technique="symbolic execution of the real Python (own z3-backed path explorer), exhaustive small-scope structures with symbolic weights"),
 "C20": dict(level="translation_validation", design="3/C20", engine="strl2smt",
   note="Trusted base: z3 (Solver for all-solutions queries, Optimize for optima); g++ 12 -std=c++20 -fno-access-control; the sequential TBB shim /verif/strl/shim (the library is otherwise compiled unchanged from /repo on every run); the driver /verif/strl/strl_driver.cpp that builds trees with the real constructors, runs the real passes and parse(), dumps the SolverModel and feeds variable values back into the real populateResults(); the reference STRL semantics in checks/c20.py.",
   text="For every tree of a bounded family (2-3 tasks; leaves Choose, WindowedChoose, MalleableChoose, Allocation; combined by Objective / Min / LessThan (nested both ways, over Min, over an Allocation or a single Choose) / Scale / a shared Max; 1-2 partitions; all subsets of the pruning passes; discretisation 1-3; the dynamic discretisation pass) the model emitted by the real C++ compiler is translated to z3 and, over ALL its solutions, "
        "z3 proves capacity at every instant, Choose exactness, Min/Max/LessThan structure, reported utility == objective; the set of outcomes (which option of which leaf is placed) equals that of an independent SMT reference of STRL (solver-driven AllSAT both ways), the optimum (z3.Optimize) equals the reference optimum and is unchanged by the passes; coarse / dynamically chosen grids only lose utility. Read-back validated by the real populateResults() on every model used.",
   technique="all-solutions SMT queries over the optimisation model emitted by the real C++ STRL compiler (rebuilt from source every run); optimum vs independent SMT reference"),
}

NA_REASON = "check not built yet (build in progress, see DESIGN.md section 5)"

m = {
 "version": 1,
 "setup_cmd": "cd /verif && ./tools/setup.sh",
 "hooks": {"guard": "ERDOS_SIM_VERIF", "enable": "no source hooks: all stubs are installed from the harness at import time (module-global shadows, class-level wrappers)",
           "baseline_off_cmd": "cd /repo && /venv/bin/python -m pytest -ra -q -p no:cacheprovider --timeout=900 --continue-on-collection-errors",
           "source_commits": [], "add_only": True},
 "engines": [
   {"name": "mip2smt", "path": "vlib/mip2smt.py", "serves_properties": sorted(k for k, v in CHECKS.items() if "mip2smt" in v.get("engine", "pysym")),
    "kind_free_text": "captures the Gurobi / CPLEX / z3 model built by the real scheduler inside schedule(), translates it to z3 and asserts properties over all of its solutions; counterexamples are injected back into the real model and read back with the real get_placements()"},
   {"name": "strl2smt", "path": "checks/c20.py", "serves_properties": ["C20"],
    "kind_free_text": "builds /repo's C++ STRL library with a sequential TBB shim into a driver (strl/), dumps the SolverModel the real Expression::parse() emits for each tree, translates it to z3; solutions are injected back and read with the real populateResults()"},
   {"name": "pysym", "path": "vlib/pysym.py", "serves_properties": sorted(k for k, v in CHECKS.items() if "pysym" in v.get("engine", "pysym")),
    "kind_free_text": "path-exploring symbolic executor for the repository's real Python functions; SNum/SBool proxies carry linear forms over z3 variables, z3 decides every branch and obligation; DFS with re-execution; process-parallel over worlds and path-prefix subtrees"},
 ],
 "checks": [],
 "notes": "All checks: ./check <ID> [--tier quick|thorough]; exit 0 held / 1 reproduced violation / 3 harness error or inconclusive. Known findings: known_findings.json.",
 "not_applicable": [],
}
for i in ids:
    if i in CHECKS:
        c = CHECKS[i]
        m["checks"].append({
            "property_id": i,
            "quick_cmd": f"./check {i} --tier quick",
            "thorough_cmd": f"./check {i} --tier thorough",
            "evidence_file": f"/verif/evidence/{i}.json",
            "replay_cmd_template": f"./check {i} --replay {{path}}",
            "engine": c.get("engine", "pysym"),
            "level_claimed": {"category": c["level"], "text": c["text"], "design_ref": c["design"]},
            "level_note": c.get("note", PYSYM_NOTE),
            "technique": c["technique"],
        })
    else:
        m["not_applicable"].append({"property_id": i, "reason": NA_REASON})
json.dump(m, open(os.path.join(V, "MANIFEST.json"), "w"), indent=1)
print("checks:", [c["property_id"] for c in m["checks"]])
