#!/bin/bash
# Offline setup: nothing to build for the Python checks; verify the toolchain is usable.
set -e
cd "$(dirname "$0")/.."
PYTHONPATH=/repo:$(pwd) /venv/bin/python -c "from z3 import z3; import vlib.pysym; print('z3', z3.get_version_string())"
mkdir -p evidence replays
