#!/bin/bash
# usage: confirm_seed.sh <srcdir with patch.diff, demo.py, meta.json> <seed-id>
# Confirms in a scratch worktree of /repo HEAD: suite passes with patch, demo fails with patch, demo passes without.
# On success copies the seed to /verif/seeded/<seed-id>/ and records what was run.
set -u
src="$1"; sid="$2"
wt=/tmp/confirm_$$
git -C /repo worktree add -q --detach "$wt" HEAD || exit 9
cd "$wt"
demo=$(ls "$src" | grep -E '^demo.*\.py$' | head -1)
# run the demo from inside the scratch worktree (seed/<name>/demo.py), as the seeders did
mkdir -p "$wt/seed/case"; cp -r "$src"/* "$wt/seed/case/"; src_run="$wt/seed/case"
res_clean="?"; res_patch="?"; suite="?"
PYTHONPATH="$wt" timeout 900 /venv/bin/python "$src_run/$demo" >/tmp/confirm_clean.log 2>&1; rc_clean=$?
if git apply --3way --exclude='seed/*' "$src/patch.diff" 2>/tmp/confirm_apply.log || git apply "$src/patch.diff" 2>>/tmp/confirm_apply.log; then
  git reset -q
  suite=$(PYTHONPATH="$wt" /venv/bin/python -m pytest -q -p no:cacheprovider --timeout=900 2>&1 | tail -1)
  PYTHONPATH="$wt" timeout 900 /venv/bin/python "$src_run/$demo" >/tmp/confirm_patch.log 2>&1; rc_patch=$?
  git diff -- . ':!seed' > /tmp/confirm_patch.diff
else
  echo "patch does not apply to HEAD"; cat /tmp/confirm_apply.log | tail -3; rc_patch=-1
fi
cd /; git -C /repo worktree remove --force "$wt"
echo "suite_with_patch: $suite | demo_clean_rc=$rc_clean demo_patch_rc=$rc_patch"
if [[ "$suite" == *"209 passed"* && $rc_clean -eq 0 && $rc_patch -ne 0 && $rc_patch -ne -1 ]]; then
  d=/verif/seeded/$sid; mkdir -p "$d"
  cp -r "$src"/. "$d"/; rm -rf "$d"/__pycache__ "$d"/build "$d"/*.o; cp /tmp/confirm_patch.diff "$d/patch.diff"
  /venv/bin/python - "$src/meta.json" "$d/meta.json" "$suite" "$rc_clean" "$rc_patch" "$demo" <<'PY'
import json,sys
m=json.load(open(sys.argv[1]))
m["confirmed_by_verif"]={"repo_head":"scratch worktree of /repo HEAD (incl. fix: commits)","suite_with_patch":sys.argv[3],"demo_rc_clean":int(sys.argv[4]),"demo_rc_with_patch":int(sys.argv[5]),
 "commands":["git worktree add --detach <tmp> HEAD","PYTHONPATH=<tmp> python "+sys.argv[6]+" (clean) -> rc "+sys.argv[4],"git apply patch.diff","python -m pytest -q (209 tests) -> "+sys.argv[3],"PYTHONPATH=<tmp> python "+sys.argv[6]+" (patched) -> rc "+sys.argv[5],"git worktree remove --force <tmp>"]}
json.dump(m,open(sys.argv[2],"w"),indent=1)
PY
  echo "KEPT $d"
else
  echo "REJECTED $sid"
fi
