#!/bin/bash
# usage: tools/seedall.sh [seed-name ...]   (default: every directory under seeded/)
# For each confirmed seeded change: scratch worktree of /repo HEAD + the seed's patch, run the quick check of the
# seed's property against it (VERIF_REPO), record exit code and the first violation reported. Nothing touches /repo.
# Writes one row per (seed, check) under seeded/results/ and regenerates seeded/RESULTS.md from all rows. Extra checks per seed can be given as NAME:Cxx (e.g. C01-m1:C04).
cd "$(dirname "$0")/.."
seeds=("$@"); [ ${#seeds[@]} -eq 0 ] && seeds=($(ls seeded | grep -E '^C[0-9]+-'))
out=seeded/RESULTS.md
rows=seeded/results; mkdir -p $rows
for s in "${seeds[@]}"; do
  name=${s%%:*}; chk=${s##*:}; [ "$chk" == "$s" ] && chk=${name%%-*}
  wt=/tmp/sw_$$_$name
  git -C /repo worktree add -q --detach "$wt" HEAD || { echo "| $name | $chk | worktree failed | | |" > $rows/${name}__$chk.row; continue; }
  if git -C "$wt" apply "$(pwd)/seeded/$name/patch.diff" 2>/tmp/seedall_apply.log; then
    t0=$(date +%s)
    VERIF_REPO="$wt" ./check "$chk" --tier quick --no-evidence > /tmp/seedall_$name.log 2>&1; rc=$?
    t1=$(date +%s)
    first=$(grep -A1 -m1 '^VIOLATION' /tmp/seedall_$name.log | tail -1 | sed 's/|/\//g' | cut -c1-160)
    [ $rc -eq 3 ] && first=$(grep -m1 'HARNESS-ERROR' /tmp/seedall_$name.log | cut -c1-160)
    echo "| $name | $chk | $rc | $((t1-t0))s | $first |" > $rows/${name}__$chk.row
    echo "$name $chk rc=$rc $((t1-t0))s"
  else
    echo "| $name | $chk | patch does not apply | | $(tail -1 /tmp/seedall_apply.log) |" > $rows/${name}__$chk.row
  fi
  git -C /repo worktree remove --force "$wt"
done
{ echo "# Seeded changes vs checks (tools/seedall.sh; one row per (seed, check) from its latest run; exit 1 = VIOLATION reported, 0 = not reported, 3 = harness error)"; echo; echo "| seed | check | exit | wall | first report |"; echo "|---|---|---|---|---|"; cat $rows/*.row | sort -V; } > $out
