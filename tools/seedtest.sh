#!/bin/bash
# usage: seedtest.sh <patch.diff> <check-id> [tier]   -- applies a seeded change to /repo, runs the check, reverts.
set -u
patch="$1"; id="$2"; tier="${3:-quick}"
cd /repo
if ! git diff --quiet; then echo "/repo is dirty, refusing"; exit 9; fi
if ! git apply --3way "$patch" 2>/tmp/seedtest.err && ! git apply "$patch" 2>>/tmp/seedtest.err; then echo "PATCH DOES NOT APPLY"; cat /tmp/seedtest.err | tail -3; git checkout -q -- . ; git reset -q; exit 8; fi
git reset -q
cd /verif
out=$(./check "$id" --tier "$tier" --no-evidence 2>&1); rc=$?
echo "$out" | grep -E "VIOLATION|HARNESS-ERROR|KNOWN-FINDING|^\[$id\] tier|^  " | cut -c1-330 | head -12
echo "exit=$rc"
cd /repo && git checkout -q -- . && git status --short | head -3
