#pragma once
#include <cstddef>
#include <unordered_map>
#include <utility>
namespace tbb {
template <typename K> struct tbb_hash_compare {
  static size_t hash(const K& k) { return std::hash<K>()(k); }
  static bool equal(const K& a, const K& b) { return a == b; }
};
template <typename K, typename V, typename HC = tbb_hash_compare<K>>
class concurrent_hash_map {
  struct H { size_t operator()(const K& k) const { return HC().hash(k); } };
  struct E { bool operator()(const K& a, const K& b) const { return HC().equal(a, b); } };
  using M = std::unordered_map<K, V, H, E>;
  M m_;
 public:
  using value_type = typename M::value_type;
  using iterator = typename M::iterator;
  using const_iterator = typename M::const_iterator;
  class const_accessor {
   public:
    const value_type* p_ = nullptr;
    const value_type& operator*() const { return *p_; }
    const value_type* operator->() const { return p_; }
    bool empty() const { return p_ == nullptr; }
    void release() { p_ = nullptr; }
  };
  class accessor {
   public:
    value_type* p_ = nullptr;
    value_type& operator*() const { return *p_; }
    value_type* operator->() const { return p_; }
    bool empty() const { return p_ == nullptr; }
    void release() { p_ = nullptr; }
  };
  bool find(const_accessor& a, const K& k) const { auto it = m_.find(k); if (it == m_.end()) return false; a.p_ = &*it; return true; }
  bool find(accessor& a, const K& k) { auto it = m_.find(k); if (it == m_.end()) return false; a.p_ = &*it; return true; }
  bool insert(accessor& a, const K& k) { auto r = m_.try_emplace(k); a.p_ = &*r.first; return r.second; }
  bool insert(const_accessor& a, const K& k) { auto r = m_.try_emplace(k); a.p_ = &*r.first; return r.second; }
  bool insert(accessor& a, const value_type& v) { auto r = m_.insert(v); a.p_ = &*r.first; return r.second; }
  bool insert(const_accessor& a, const value_type& v) { auto r = m_.insert(v); a.p_ = &*r.first; return r.second; }
  bool insert(const value_type& v) { return m_.insert(v).second; }
  bool emplace(const K& k, const V& v) { return m_.emplace(k, v).second; }
  bool erase(const K& k) { return m_.erase(k) > 0; }
  size_t count(const K& k) const { return m_.count(k); }
  size_t size() const { return m_.size(); }
  using range_type = M;
  using const_range_type = const M;
  M& range() { return m_; }
  const M& range() const { return m_; }
  bool empty() const { return m_.empty(); }
  void clear() { m_.clear(); }
  iterator begin() { return m_.begin(); }
  iterator end() { return m_.end(); }
  const_iterator begin() const { return m_.begin(); }
  const_iterator end() const { return m_.end(); }
};
}
