#pragma once
#include <deque>
namespace tbb {
template <typename T> class concurrent_vector : public std::deque<T> {
 public:
  using std::deque<T>::deque;
  void reserve(size_t) {}
  typename std::deque<T>::iterator push_back(const T& v) { std::deque<T>::push_back(v); return std::prev(this->end()); }
  typename std::deque<T>::iterator push_back(T&& v) { std::deque<T>::push_back(std::move(v)); return std::prev(this->end()); }
};
}
