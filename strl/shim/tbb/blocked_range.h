#pragma once
#include <cstddef>
namespace tbb {
template <typename T> class blocked_range {
  T b_, e_;
 public:
  blocked_range(T b, T e, size_t = 1) : b_(b), e_(e) {}
  T begin() const { return b_; }
  T end() const { return e_; }
};
}
