#pragma once
#include "tbb/blocked_range.h"
namespace tbb {
template <typename R, typename F> void parallel_for(R&& r, const F& f) { f(r); }
}
