#pragma once
namespace tbb {
class task_group {
 public:
  template <typename F> void run(F&& f) { f(); }
  void wait() {}
};
}
