// Stand-alone driver for the STRL compiler of /repo/schedulers/tetrisched (no solver back-end).
// Built by the C20 check on every run against the repository's current sources with a sequential
// TBB shim and -fno-access-control (SolverModel's constructor and the solution fields are private).
//
// stdin protocol (whitespace separated tokens, one command per line):
//   PART <id> <name> <quantity>
//   NODE <idx> CHOOSE <task> <numRequired> <start> <duration> <utility> <npart> <pid>...
//   NODE <idx> ALLOC <task> <start> <duration> <npart> <pid> <qty>...
//   NODE <idx> WCHOOSE <task> <numRequired> <start> <duration> <end> <granularity> <utility> <npart> <pid>...
//   NODE <idx> MCHOOSE <task> <slots> <start> <end> <granularity> <utility> <npart> <pid>...
//   NODE <idx> MAX|MIN|LT|OBJ <name>
//   NODE <idx> SCALE <name> <factor>
//   EDGE <parent idx> <child idx>
//   RUN <root idx> <now> <discretization> <critical_path 0/1> <capacity_purge 0/1> [<dynamic_discretization 0/1> <maxDiscretization>]
//        -> dumps the compiled model (VAR / CON / OBJ / NODEINFO lines) then "ENDMODEL"
//   SOL <n> then n lines "<varname> <value>"
//        -> injects the values, calls the real populateResults() on the root, dumps
//           UTIL / PLACEMENT / ALLOCATION lines then "ENDSOL"
//   QUIT
#include <iostream>
#include <map>
#include <sstream>
#include <string>
#include <vector>

#include "tetrisched/Expression.hpp"
#include "tetrisched/OptimizationPasses.hpp"
#include "tetrisched/Partition.hpp"
#include "tetrisched/SolverModel.hpp"

using namespace tetrisched;

static std::string vname(const VariablePtr& v) { return v->variableName + "@" + std::to_string(v->variableId); }

static void resetSolutions(ExpressionPtr e, std::set<Expression*>& seen) {
  if (seen.count(e.get())) return;
  seen.insert(e.get());
  e->solution = nullptr;
  for (auto& c : e->children) resetSolutions(c, seen);
}

static void dumpNodes(ExpressionPtr e, std::set<Expression*>& seen, std::map<Expression*, int>& idx) {
  if (seen.count(e.get())) return;
  seen.insert(e.get());
  auto sol = e->getSolution();
  std::cout << "UTIL " << idx[e.get()] << " " << e->getName() << " ";
  if (!sol.has_value()) {
    std::cout << "nosolution";
  } else {
    auto s = sol.value();
    std::cout << (s->type == SolutionResultType::EXPRESSION_UTILITY ? "utility" : "noutility") << " ";
    if (s->utility.has_value()) std::cout << s->utility.value(); else std::cout << "none";
    std::cout << " ";
    if (s->startTime.has_value()) std::cout << s->startTime.value(); else std::cout << "none";
    std::cout << " ";
    if (s->endTime.has_value()) std::cout << s->endTime.value(); else std::cout << "none";
  }
  std::cout << std::endl;
  for (auto& c : e->children) dumpNodes(c, seen, idx);
}

int main() {
  std::map<uint32_t, PartitionPtr> parts;
  std::map<int, ExpressionPtr> nodes;
  std::map<Expression*, int> idx;
  SolverModelPtr model;
  ExpressionPtr root;
  std::string line;
  while (std::getline(std::cin, line)) {
    std::istringstream in(line);
    std::string cmd;
    in >> cmd;
    try {
      if (cmd == "PART") {
        uint32_t id; std::string name; size_t q;
        in >> id >> name >> q;
        parts[id] = std::make_shared<Partition>(id, name, q);
      } else if (cmd == "NODE") {
        int i; std::string kind, name;
        in >> i >> kind >> name;
        ExpressionPtr e;
        auto readParts = [&](Partitions& ps) { int n; in >> n; for (int k = 0; k < n; k++) { uint32_t p; in >> p; ps.addPartition(parts.at(p)); } };
        if (kind == "CHOOSE") {
          uint32_t req; Time st, du; double ut; in >> req >> st >> du >> ut;
          Partitions ps; readParts(ps);
          e = std::make_shared<ChooseExpression>(name, ps, req, st, du, ut);
        } else if (kind == "ALLOC") {
          Time st, du; int n; in >> st >> du >> n;
          PriorPlacement pp;
          for (int k = 0; k < n; k++) { uint32_t p, q; in >> p >> q; pp.push_back({parts.at(p), q}); }
          e = std::make_shared<AllocationExpression>(name, pp, st, du);
        } else if (kind == "WCHOOSE") {
          uint32_t req; Time st, du, en, gr; double ut; in >> req >> st >> du >> en >> gr >> ut;
          Partitions ps; readParts(ps);
          e = std::make_shared<WindowedChooseExpression>(name, ps, req, st, du, en, gr, ut);
        } else if (kind == "MCHOOSE") {
          uint32_t slots; Time st, en, gr; double ut; in >> slots >> st >> en >> gr >> ut;
          Partitions ps; readParts(ps);
          e = std::make_shared<MalleableChooseExpression>(name, ps, slots, st, en, gr, ut);
        } else if (kind == "MAX") e = std::make_shared<MaxExpression>(name);
        else if (kind == "MIN") e = std::make_shared<MinExpression>(name);
        else if (kind == "LT") e = std::make_shared<LessThanExpression>(name);
        else if (kind == "OBJ") e = std::make_shared<ObjectiveExpression>(name);
        else if (kind == "SCALE") { double f; in >> f; e = std::make_shared<ScaleExpression>(name, f); }
        else { std::cout << "ERROR unknown node kind " << kind << std::endl; continue; }
        nodes[i] = e;
        idx[e.get()] = i;
      } else if (cmd == "EDGE") {
        int p, c; in >> p >> c;
        nodes.at(p)->addChild(nodes.at(c));
      } else if (cmd == "RUN") {
        int r; Time now, disc; int cp, purge; int dyn = 0; Time maxDisc = 5;
        in >> r >> now >> disc >> cp >> purge;
        if (!(in >> dyn)) dyn = 0;
        if (dyn && !(in >> maxDisc)) maxDisc = 5;
        root = nodes.at(r);
        Partitions avail;
        for (auto& [id, p] : parts) avail.addPartition(p);
        model = std::shared_ptr<SolverModel>(new SolverModel());
        CapacityConstraintMapPtr cc = std::make_shared<CapacityConstraintMap>(disc);
        auto cfg = std::make_shared<OptimizationPassConfig>();
        cfg->minDiscretization = disc;
        cfg->maxDiscretization = maxDisc;
        OptimizationPassRunner runner(cfg, false);
        if (cp) runner.addOptimizationPass(OptimizationPassCategory::CRITICAL_PATH_PASS);
        if (dyn) runner.addOptimizationPass(OptimizationPassCategory::DYNAMIC_DISCRETIZATION_PASS);
        if (purge) runner.addOptimizationPass(OptimizationPassCategory::CAPACITY_CONSTRAINT_PURGE_PASS);
        runner.runPreTranslationPasses(now, root, cc);
        auto pr = root->parse(model, avail, cc, now);
        runner.runPostTranslationPasses(now, root, cc);
        std::cout.precision(17);
        for (auto& [id, v] : model->modelVariables) {
          std::cout << "VAR " << vname(v) << " " << (v->variableType == VAR_CONTINUOUS ? "C" : (v->variableType == VAR_INTEGER ? "I" : "B")) << " ";
          if (v->lowerBound.has_value()) std::cout << v->lowerBound.value(); else std::cout << "none";
          std::cout << " ";
          if (v->upperBound.has_value()) std::cout << v->upperBound.value(); else std::cout << "none";
          std::cout << std::endl;
        }
        for (auto& [id, c] : model->modelConstraints) {
          std::cout << "CON " << c->constraintName << " " << (c->constraintType == CONSTR_LE ? "LE" : (c->constraintType == CONSTR_EQ ? "EQ" : "GE")) << " "
                    << c->rightHandSide << " " << (c->active ? 1 : 0) << " " << c->terms.size();
          for (auto& [coef, var] : c->terms) std::cout << " " << coef << " " << (var ? vname(var) : std::string("@const"));
          std::cout << std::endl;
        }
        auto& obj = model->objectiveFunction;
        std::cout << "OBJ " << (obj->objectiveType == OBJ_MAXIMIZE ? "MAX" : "MIN") << " " << obj->terms.size();
        for (auto& [coef, var] : obj->terms) std::cout << " " << coef << " " << (var ? vname(var) : std::string("@const"));
        std::cout << std::endl;
        // per-node information needed for the read-back relation
        for (auto& [i, e] : nodes) {
          auto p = e->getParsedResult();
          std::cout << "NODEINFO " << i << " " << e->getName() << " " << e->getTypeString() << " ";
          if (!p.has_value()) { std::cout << "unparsed" << std::endl; continue; }
          auto pr2 = p.value();
          std::cout << (pr2->type == ParseResultType::EXPRESSION_UTILITY ? "utility" : "noutility") << " ";
          if (pr2->indicator.has_value()) {
            if (pr2->indicator->isVariable()) std::cout << "ind=" << vname(pr2->indicator->get<VariablePtr>());
            else std::cout << "indconst=" << pr2->indicator->get<uint32_t>();
          } else std::cout << "ind=none";
          if (e->getType() == ExpressionType::EXPR_CHOOSE) {
            auto ce = std::static_pointer_cast<ChooseExpression>(e);
            for (auto& [pid, var] : ce->partitionVariables) std::cout << " pv:" << pid << "=" << vname(var);
          }
          if (e->getType() == ExpressionType::EXPR_WINDOWED_CHOOSE) {
            auto we = std::static_pointer_cast<WindowedChooseExpression>(e);
            for (auto& [t, var] : we->placementTimeVariables) std::cout << " wt:" << t << "=" << vname(var);
            for (auto& [t, vec] : we->placementPartitionVariables)
              for (auto& [pid, var] : vec) std::cout << " wpv:" << t << ":" << pid << "=" << vname(var);
          }
          if (e->getType() == ExpressionType::EXPR_MALLEABLE_CHOOSE) {
            auto me = std::static_pointer_cast<MalleableChooseExpression>(e);
            for (auto& [key, var] : me->partitionVariables) std::cout << " mpv:" << key.first << ":" << key.second << "=" << vname(var);
          }
          if (pr2->startTime.has_value()) {
            if (pr2->startTime->isVariable()) std::cout << " st=" << vname(pr2->startTime->get<VariablePtr>());
            else std::cout << " stconst=" << pr2->startTime->get<Time>();
          }
          if (pr2->endTime.has_value()) {
            if (pr2->endTime->isVariable()) std::cout << " en=" << vname(pr2->endTime->get<VariablePtr>());
            else std::cout << " enconst=" << pr2->endTime->get<Time>();
          }
          std::cout << std::endl;
        }
        std::cout << "ENDMODEL" << std::endl;
      } else if (cmd == "SOL") {
        int n; in >> n;
        std::map<std::string, double> vals;
        for (int k = 0; k < n; k++) { std::string l2; std::getline(std::cin, l2); std::istringstream i2(l2); std::string nm; double v; i2 >> nm >> v; vals[nm] = v; }
        for (auto& [id, v] : model->modelVariables) {
          auto it = vals.find(vname(v));
          if (it != vals.end()) v->solutionValue = it->second; else v->solutionValue = std::nullopt;
        }
        std::set<Expression*> seen;
        resetSolutions(root, seen);
        auto sol = root->populateResults(model);
        std::set<Expression*> seen2;
        dumpNodes(root, seen2, idx);
        std::cout << "OBJVALUE " << model->objectiveFunction->getValue() << std::endl;
        if (sol) {
          for (auto& [task, pl] : sol->placements) {
            std::cout << "PLACEMENT " << task << " " << (pl->isPlaced() ? 1 : 0) << " ";
            if (pl->getStartTime().has_value()) std::cout << pl->getStartTime().value(); else std::cout << "none";
            std::cout << " ";
            if (pl->getEndTime().has_value()) std::cout << pl->getEndTime().value(); else std::cout << "none";
            std::cout << std::endl;
            for (auto& [pid, allocs] : pl->getPartitionAllocations())
              for (auto& [t, q] : allocs) std::cout << "ALLOCATION " << task << " " << pid << " " << t << " " << q << std::endl;
          }
        }
        std::cout << "ENDSOL" << std::endl;
      } else if (cmd == "QUIT") {
        break;
      } else if (cmd.size()) {
        std::cout << "ERROR unknown command " << cmd << std::endl;
      }
    } catch (std::exception& ex) {
      std::cout << "EXCEPTION " << ex.what() << std::endl;
      if (cmd == "RUN") std::cout << "ENDMODEL" << std::endl;
      if (cmd == "SOL") std::cout << "ENDSOL" << std::endl;
    }
  }
  return 0;
}
