#!/bin/bash
# Builds the STRL driver against /repo's current tetrisched sources (sequential TBB shim, no solver back-end).
set -e
here="$(cd "$(dirname "$0")" && pwd)"
T="${VERIF_REPO:-/repo}/schedulers/tetrisched"
out="$here/build"; mkdir -p "$out"
FLAGS="-std=c++20 -O0 -w -fno-access-control -I $here/shim -I $T/include"
pids=()
for f in Types Partition SolverModel CapacityConstraint Expression OptimizationPasses; do
  g++ $FLAGS -c "$T/src/$f.cpp" -o "$out/$f.o" & pids+=($!)
done
g++ $FLAGS -c "$here/strl_driver.cpp" -o "$out/strl_driver.o" & pids+=($!)
for p in "${pids[@]}"; do wait $p; done
g++ "$out"/*.o -o "$out/strl_driver"
echo "$out/strl_driver"
