"""Stubs installed into the code under test *from the harness* (no source change).

 * builtin shadows  utils.type / utils.int / utils.round  (module-global names that shadow
   the builtins inside utils.py only; identical to the builtins on concrete values)
 * null / capturing loggers (setup_logging, setup_csv_logging in every repo module)
 * nondeterministic draws in workload.tasks (random.choices / random.random / random.choice)
   become engine choices restricted to the documented contract of the function.

With VERIF_CONCRETE=1 (counterexample replay) the builtin shadows are NOT installed.
"""
import logging
import os
import random as _random
import sys

from . import harness, pysym

CONCRETE = os.environ.get("VERIF_CONCRETE") == "1"

NULL = logging.getLogger("verif-null")
NULL.addHandler(logging.NullHandler())
NULL.propagate = False
NULL.setLevel(logging.CRITICAL + 10)
NULL.disabled = True


class RowLogger:
    """Stand-in for the CSV logger: keeps the rendered rows (cells may be engine tokens)."""

    def __init__(self):
        self.rows = []

    def _log(self, msg, *args):
        if args:
            msg = msg % args
        self.rows.append(str(msg))

    debug = info = warning = warn = error = critical = _log

    def isEnabledFor(self, level):
        return True

    def addFilter(self, f):
        pass

    handlers = ()


CSV = RowLogger()


def _setup_logging(name=None, *a, **k):
    return NULL


def _setup_csv_logging(name=None, *a, **k):
    return CSV


class RandomProxy:
    """Replaces the module-global `random` inside workload.tasks."""

    def __getattr__(self, n):
        return getattr(_random, n)

    @staticmethod
    def choices(population, weights=None, k=1):
        if k != 1:
            raise pysym.Unsupported("random.choices with k != 1")
        if weights is None:
            cand = list(population)
        else:
            cand = [p for p, w in zip(population, weights) if w > 0]
        if not cand:
            raise ValueError("Total of weights must be greater than zero")
        i = harness.CUR_ENV.choose(len(cand), "draw")
        return [cand[i]]

    @staticmethod
    def choice(seq):
        seq = list(seq)
        if not seq:
            raise IndexError("Cannot choose from an empty sequence")
        return seq[harness.CUR_ENV.choose(len(seq), "draw")]

    @staticmethod
    def random():
        # only ever compared against an accuracy threshold: two outcomes
        return 0.0 if harness.CUR_ENV.choose(2, "coin") == 0 else 1.0 - 2 ** -53


_installed = False


def install(capture_csv=False):
    """Import the repo packages and install the stubs. Idempotent."""
    global _installed
    import utils

    if not _installed:
        utils.setup_logging = _setup_logging
        utils.setup_csv_logging = _setup_csv_logging
        if not CONCRETE:
            utils.type = pysym.sym_type
            utils.int = pysym.sym_int
            utils.round = pysym.sym_round
    import data.csv_reader
    import data.csv_types

    if not _installed and not CONCRETE:
        for m in (data.csv_reader, data.csv_types):
            m.int = pysym.sym_int
            m.float = pysym.sym_float
    import workload.tasks  # noqa: E402
    import workers.workers  # noqa: F401
    import schedulers  # noqa: F401
    import simulator  # noqa: F401

    for name, m in list(sys.modules.items()):
        f = getattr(m, "__file__", None) or ""
        if not f.startswith(harness.REPO + "/"):
            continue
        if hasattr(m, "setup_logging"):
            m.setup_logging = _setup_logging
        if hasattr(m, "setup_csv_logging"):
            m.setup_csv_logging = _setup_csv_logging
    workload.tasks.random = RandomProxy()
    if not _installed:
        from . import cover

        cover.start(harness.REPO + "/")
    _installed = True
