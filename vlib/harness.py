"""Check driver: environments (symbolic / concrete), parallel exploration of worlds,
replay of counterexamples against the unmodified code, known findings, evidence."""
import builtins
import hashlib
import importlib
import json
import multiprocessing as mp
import os
import random as _random
import subprocess
import sys
import time
import traceback

from . import pysym
from .pysym import (Engine, EngineSignal, Inconclusive, LoopBudget, PathInfeasible, SBool, SNum,
                    Unsupported, sand, snot, sor)

VERIF = os.path.dirname(os.path.dirname(os.path.abspath(__file__)))
REPO = os.environ.get("VERIF_REPO", "/repo")
HI = 2 ** 40

CUR_ENV = None  # the environment the stubs talk to


class Namer:
    def __init__(self):
        self.n = {}

    def __call__(self, base):
        i = self.n.get(base, 0)
        self.n[base] = i + 1
        return base if i == 0 else f"{base}#{i}"


class SymEnv:
    concrete = False

    def __init__(self, eng):
        self.eng = eng
        self.want_final = True
        self.crash_is_violation = True
        self.reset()

    def reset(self):
        self.violations = []
        self.aborted = []
        self.checked = {}
        self.notes = []
        self.observables = {}
        self._final = None

    # inputs
    def int(self, name, lo=0, hi=HI):
        return self.eng.declare(name, True, lo, hi)

    def real(self, name, lo=None, hi=None):
        return self.eng.declare(name, False, lo, hi)

    def bool(self, name):
        return self.eng.declare(name, True, 0, 1) == 1

    def choose(self, n, name="ch"):
        return self.eng.choose(n, name)

    def assume(self, cond):
        self.eng.assume(cond)

    def holds(self, cond):
        """Decide a condition (forks)."""
        return bool(cond)

    def require(self, label, cond, info=None):
        """Property obligation: violated iff (path condition AND NOT cond) is satisfiable."""
        self.checked[label] = self.checked.get(label, 0) + 1
        neg = snot(cond)
        m = self.eng.find(neg)
        if m is not None:
            self.violations.append(
                {"label": label, "assignment": self._assignment(m), "info": info}
            )
            # continue on the part of the path where the obligation holds
            self.eng.assume(cond)

    def crash(self, exc):
        label = "crash:" + builtins.type(exc).__name__
        if not self.crash_is_violation:
            self.aborted.append(f"{builtins.type(exc).__name__}: {exc}"[:200])
            return
        m = self.eng.find(True)
        tb = traceback.extract_tb(exc.__traceback__)
        where = " <- ".join(f"{f.filename.split('/')[-1]}:{f.lineno}" for f in reversed(tb[-4:]))
        self.violations.append(
            {"label": label, "assignment": self._assignment(m or {}), "info": f"{exc!r} @ {where} ctx={getattr(self, 'ctx', '')}"[:500]}
        )

    def observe(self, name, value):
        self.observables[name] = value

    def _assignment(self, m):
        out = {}
        for n in self.eng.inputs:
            v = m.get(n)
            if v is None:
                isint, lo, hi = self.eng.vars[n]
                v = lo if lo is not None else 0
            out[n] = v if builtins.type(v) is int else str(v)
        return out

    def eval_obs(self):
        """Concrete values of the observables under one model of the path condition."""
        m = self.eng.find(True)
        if m is None:
            return None, None
        self.eng.model = m
        vals = {}
        for k, v in self.observables.items():
            vals[k] = _eval(self.eng, v, m)
        return self._assignment(m), vals


def _eval(eng, v, m):
    if isinstance(v, SNum):
        s = v.k
        for n, c in v.c.items():
            s += c * m[n]
        return s if builtins.type(s) is int else str(s)
    if isinstance(v, SBool):
        if v.lin is not None:
            return eng._model_says(v)
        return None
    if isinstance(v, (list, tuple)):
        return [_eval(eng, x, m) for x in v]
    return v


class ConcEnv:
    concrete = True

    def __init__(self, assignment):
        self.assignment = assignment
        self.namer = Namer()
        self.failures = []
        self.diverged = False
        self.checked = {}
        self.observables = {}
        self.notes = []

    def _get(self, base, lo):
        name = self.namer(base)
        if name in self.assignment:
            v = self.assignment[name]
            if isinstance(v, str):
                from fractions import Fraction

                v = Fraction(v)
                v = v.numerator if v.denominator == 1 else float(v)
            return v
        self.diverged = True
        return lo if lo is not None else 0

    def int(self, name, lo=0, hi=HI):
        return self._get(name, lo)

    def real(self, name, lo=None, hi=None):
        return self._get(name, lo)

    def bool(self, name):
        return self._get(name, 0) == 1

    def choose(self, n, name="ch"):
        if n <= 1:
            return 0
        v = self._get(name, 0)
        return v if 0 <= v < n else 0

    def assume(self, cond):
        if not cond:
            raise PathInfeasible()

    def holds(self, cond):
        return bool(cond)

    def require(self, label, cond, info=None):
        self.checked[label] = self.checked.get(label, 0) + 1
        if not cond:
            self.failures.append({"label": label, "info": info})

    def crash(self, exc):
        tb = traceback.extract_tb(exc.__traceback__)
        where = " <- ".join(f"{f.filename.split('/')[-1]}:{f.lineno}" for f in reversed(tb[-4:]))
        self.failures.append({"label": "crash:" + builtins.type(exc).__name__, "info": f"{exc!r} @ {where} ctx={getattr(self, 'ctx', '')}"[:500]})

    def observe(self, name, value):
        self.observables[name] = value


# ---------------------------------------------------------------------------- jobs

def _load(modname):
    return importlib.import_module(modname)


def _run_path(mod, env, world):
    global CUR_ENV
    CUR_ENV = env
    _random.seed(424242)
    try:
        return mod.run(env, world)
    except EngineSignal:
        raise
    except RecursionError:
        raise
    except Exception as e:  # an exception raised by the code under test
        if getattr(mod, "EXPECTED_EXC", None) and isinstance(e, mod.EXPECTED_EXC):
            raise
        env.crash(e)
        return None


def job(args):
    """Explore one world (or one prefix subtree of it) in a worker process."""
    modname, widx, world, prefix, depth_limit, limits = args
    if os.environ.get("VERIF_JOB_WATCHDOG"):
        import faulthandler

        faulthandler.dump_traceback_later(int(os.environ["VERIF_JOB_WATCHDOG"]), exit=True)
    mod = _load(modname)
    from . import cover

    t0 = time.time()
    eng = Engine(timeout_ms=limits.get("solver_timeout_ms", 20000))
    env = SymEnv(eng)
    env.crash_is_violation = getattr(mod, "CRASH_IS_VIOLATION", True)
    out = {"aborted": 0, "aborted_samples": [],
        "widx": widx, "paths": 0, "status": {}, "violations": [], "prefixes": [], "problems": [],
        "checked": {}, "samples": [], "validated": 0, "mismatch": [],
    }
    nsample = limits.get("samples_per_job", 2)
    nvalidate = limits.get("validate_per_job", 2)
    max_paths = limits.get("max_paths")
    if os.environ.get("VERIF_MAX_PATHS"):
        max_paths = int(os.environ["VERIF_MAX_PATHS"])
    seen_v = set()

    def fn():
        env.reset()
        return _run_path(mod, env, world)

    for status, res, bits in eng.explore(fn, prefix=prefix, depth_limit=depth_limit, max_paths=max_paths):
        out["status"][status] = out["status"].get(status, 0) + 1
        if status == "truncated":
            out["problems"].append("path budget exceeded (max_paths)")
            break
        out["paths"] += 1
        if status == "prefix":
            out["prefixes"].append(bits)
            continue
        if status in ("unsupported", "inconclusive"):
            if len(out["problems"]) < 5:
                out["problems"].append(f"{status}: {res}")
            continue
        if status == "budget":
            # the harness decides what a blown budget means (it records a violation itself)
            pass
        for lab, n in env.checked.items():
            out["checked"][lab] = out["checked"].get(lab, 0) + n
        if env.aborted:
            out["aborted"] += 1
            if len(out["aborted_samples"]) < 2:
                out["aborted_samples"].append(env.aborted[0])
        for v in env.violations:
            sig = (v["label"], json.dumps(v["assignment"], sort_keys=True))
            k = v["label"]
            cnt = sum(1 for s in seen_v if s[0] == k)
            if sig not in seen_v and cnt < limits.get("max_viol_per_label", 6):
                seen_v.add(sig)
                out["violations"].append(v)
        if len(out["violations"]) >= limits.get("stop_after_violations", 10 ** 9):
            out["stopped_early"] = True
            break
        fin = env._final
        if status == "ok" and fin is not None and fin[0] is not None:
            assign, expect = fin
            if len(out["samples"]) < nsample:
                out["samples"].append({"inputs": assign, "observed": expect, "branches": len(bits)})
            if out["validated"] < nvalidate and expect:
                cenv = ConcEnv(assign)
                try:
                    _run_path(mod, cenv, world)
                    got = {k: _plain(v) for k, v in cenv.observables.items()}
                    exp = {k: _plain(v) for k, v in expect.items()}
                    out["validated"] += 1
                    if cenv.diverged:
                        out["mismatch"].append({"inputs": assign, "diverged": True})
                    elif got != exp:
                        out["mismatch"].append({"inputs": assign, "symbolic": exp, "concrete": got})
                    elif cenv.failures:
                        out["mismatch"].append({"inputs": assign, "concrete_failures": cenv.failures[:3]})
                except EngineSignal as e:
                    out["mismatch"].append({"inputs": assign, "signal": repr(e)})
        env.want_final = len(out["samples"]) < nsample or out["validated"] < nvalidate
    lines, funcs = cover.snapshot()
    out.update(
        queries=eng.queries, solver_s=round(eng.solver_s, 3), decisions=eng.decisions,
        cache_hits=eng.cache_hits, unknown=eng.unknown, max_depth=eng.max_depth,
        wall=round(time.time() - t0, 3), lines=sorted(lines), funcs=sorted(funcs),
        nonlinear=eng.nonlinear,
    )
    return out


def _plain(v):
    if isinstance(v, (list, tuple)):
        return [_plain(x) for x in v]
    if isinstance(v, float) and v == int(v):
        return int(v)
    if isinstance(v, str):
        try:
            from fractions import Fraction

            f = Fraction(v)
            return f.numerator if f.denominator == 1 else v
        except (ValueError, ZeroDivisionError):
            return v
    return v


def finish_path(env):
    """Harnesses call this last: records one concrete model + observable values."""
    if env.concrete or not env.want_final:
        return
    assign, vals = env.eval_obs()
    env._final = (assign, vals)


# ---------------------------------------------------------------------------- driver

def known_findings():
    p = os.path.join(VERIF, "known_findings.json")
    if not os.path.exists(p):
        return []
    return json.load(open(p)).get("findings", [])


def replay_concrete(modname, world, assignment, label):
    """Re-run the harness with plain Python values in a fresh process, without the engine
    shadows.  Returns (reproduced, failures, error)."""
    payload = json.dumps({"mod": modname, "world": world, "assignment": assignment, "label": label})
    env = dict(os.environ)
    env["PYTHONPATH"] = f"{REPO}:{VERIF}"
    env["VERIF_CONCRETE"] = "1"
    try:
        r = subprocess.run(
            [sys.executable, "-m", "vlib.replay"], input=payload, capture_output=True, text=True,
            env=env, timeout=300, cwd=VERIF,
        )
    except subprocess.TimeoutExpired:
        return False, [], "replay timeout"
    if r.returncode != 0:
        return False, [], (r.stderr or r.stdout)[-2000:]
    try:
        res = json.loads(r.stdout.strip().splitlines()[-1])
    except Exception:
        return False, [], "unparsable replay output: " + r.stdout[-500:]
    return res["reproduced"], res["failures"], None


def main(mod, argv=None, collect=None):
    """collect: optional dict; when given, the evidence is stored in collect['evidence'] and not written."""
    import argparse

    ap = argparse.ArgumentParser()
    ap.add_argument("--tier", default=os.environ.get("VERIF_TIER", "quick"))
    ap.add_argument("--replay")
    ap.add_argument("--jobs", type=int, default=int(os.environ.get("VERIF_JOBS", "16")))
    ap.add_argument("--only", help="substring filter on world names (debugging)")
    ap.add_argument("--no-evidence", action="store_true")
    a = ap.parse_args(argv)
    a.collect = collect
    pid = mod.ID
    seed = int(os.environ.get("VERIF_SEED", "0"))
    if a.replay:
        return replay_file(mod, a.replay)
    t0 = time.time()
    tier = "thorough" if a.tier.startswith("t") else "quick"
    worlds = mod.worlds(tier)
    if a.only:
        worlds = [w for w in worlds if a.only in w["name"]]
    limits = dict(getattr(mod, "LIMITS", {}))
    limits.update(getattr(mod, "LIMITS_" + tier.upper(), {}))
    order = list(range(len(worlds)))
    _random.Random(seed).shuffle(order)
    # heavy worlds first helps the tail; keep the seed-permutation inside equal weights
    order.sort(key=lambda i: -worlds[i].get("weight", 1))
    results = {i: [] for i in order}
    pending = []
    for i in order:
        w = worlds[i]
        pending.append((mod.__name__, i, w, None, w.get("split"), limits))
    problems = []
    with mp.get_context("fork").Pool(a.jobs) as pool:
        while pending:
            batch, pending = pending, []
            for out in pool.imap_unordered(job, batch):
                results[out["widx"]].append(out)
                if os.environ.get("VERIF_VERBOSE") == "2":
                    print(f"  job done world={worlds[out['widx']]['name']} paths={out['paths']} wall={out['wall']} prefixes={len(out['prefixes'])}", file=sys.stderr, flush=True)
                for bits in out["prefixes"]:
                    w = worlds[out["widx"]]
                    pending.append((mod.__name__, out["widx"], w, bits, None, limits))
    return report(mod, tier, seed, worlds, results, t0, a)


def report(mod, tier, seed, worlds, results, t0, a):
    pid = mod.ID
    tot = dict(paths=0, queries=0, decisions=0, solver_s=0.0, unknown=0, validated=0, cache_hits=0)
    status = {}
    checked = {}
    problems, mismatches, samples = [], [], []
    lines, funcs = set(), set()
    viol = []
    per_world = []
    for i, outs in results.items():
        wp = 0
        for o in outs:
            for k in ("paths", "queries", "decisions", "unknown", "validated", "cache_hits"):
                tot[k] += o[k]
            tot["solver_s"] += o["solver_s"]
            wp += o["paths"]
            for s, n in o["status"].items():
                status[s] = status.get(s, 0) + n
            for lab, n in o["checked"].items():
                checked[lab] = checked.get(lab, 0) + n
            problems += [f"{worlds[i]['name']}: {p}" for p in o["problems"]]
            mismatches += [dict(m, world=worlds[i]["name"]) for m in o["mismatch"]]
            if len(samples) < 12:
                samples += [dict(s, world=worlds[i]["name"]) for s in o["samples"][:1]]
            lines.update(map(tuple, o["lines"]))
            funcs.update(map(tuple, o["funcs"]))
            for v in o["violations"]:
                viol.append((i, v))
        per_world.append({"world": worlds[i]["name"], "paths": wp, "jobs": len(outs),
                          "cpu_s": round(sum(o["wall"] for o in outs), 1), "max_job_s": max((o["wall"] for o in outs), default=0)})
    complete_paths = status.get("ok", 0) + status.get("budget", 0)
    aborted = sum(o.get("aborted", 0) for outs in results.values() for o in outs)
    aborted_samples = [s for outs in results.values() for o in outs for s in o.get("aborted_samples", [])][:5]
    # ---- vacuity / soundness guards
    harness_errors = []
    if status.get("unsupported") or status.get("inconclusive") or tot["unknown"]:
        harness_errors.append(f"inconclusive paths: {status}")
    if problems:
        harness_errors.append("problems: " + "; ".join(problems[:5]))
    if mismatches:
        harness_errors.append("symbolic/concrete mismatch: " + json.dumps(mismatches[:2])[:600])
    if aborted and aborted >= complete_paths:
        harness_errors.append(f"every completed path was aborted by an exception of the code under test: {aborted_samples[:2]}")
    for w in per_world:
        if w["paths"] == 0:
            harness_errors.append(f"world {w['world']} explored no path")
    need = getattr(mod, "REQUIRED_LABELS", None)
    if need:
        for lab in need(tier) if callable(need) else need:
            if not checked.get(lab):
                harness_errors.append(f"obligation '{lab}' was never reached (vacuous)")
    anchors_report = []
    for anc in ([] if a.only else getattr(mod, "ANCHORS", [])):
        if len(anc) == 2:  # (file, function qualname): robust against line shifts
            fname, qual = anc
            n = sum(1 for (f, q) in funcs if f == fname and q == qual)
            anchors_report.append({"file": fname, "function": qual, "executed": bool(n)})
            if n == 0:
                harness_errors.append(f"anchored mechanism {fname}:{qual} never executed")
            continue
        fname, lo, hi = anc
        n = sum(1 for (f, l) in lines if f == fname and lo <= l <= hi)
        anchors_report.append({"file": fname, "lines": [lo, hi], "lines_hit": n})
        if n == 0:
            harness_errors.append(f"anchored mechanism {fname}:{lo}-{hi} never executed")
    # ---- violations: replay, classify
    known = [k for k in known_findings() if k.get("property") == pid and k.get("status", "known") == "known"]
    reported, known_hit, nonrepro = [], {}, []
    seen_sig = set()
    replays = 0
    max_replays = getattr(mod, "MAX_REPLAYS", 40)
    # group by (pre-replay) signature; replay up to 3 members of each group until one reproduces
    groups = {}
    for i, v in viol:
        sig = mod.signature(worlds[i], v, None) if hasattr(mod, "signature") else v["label"]
        groups.setdefault(sig, []).append((i, v))
    for sig, members in sorted(groups.items()):
        members.sort(key=lambda iv: (len(json.dumps(iv[1]["assignment"])), iv[0]))
        kn = next((k for k in known if k["signature"] == sig), None)
        done = False
        fails = []
        for i, v in members[:3]:
            w = worlds[i]
            replays += 1
            ok, failures, err = replay_concrete(mod.__name__, w, v["assignment"], v["label"])
            if err:
                fails.append({"world": w["name"], "label": v["label"], "error": err[-600:], "assignment": v["assignment"]})
                continue
            if not ok:
                fails.append({"world": w["name"], "label": v["label"], "failures": failures, "assignment": v["assignment"]})
                continue
            done = True
            if kn:
                known_hit[sig] = {"finding": kn, "example": {"world": w["name"], "assignment": v["assignment"]}, "count": len(members)}
            else:
                path = write_replay(pid, mod.__name__, w, v, sig)
                reported.append({"signature": sig, "world": w["name"], "label": v["label"], "replay": path, "info": v.get("info"),
                                 "count": len(members)})
            break
        if not done:
            nonrepro += fails
    if nonrepro:
        harness_errors.append("counterexample did not reproduce concretely: " + json.dumps(nonrepro[:2])[:800])
    wall = time.time() - t0
    # ---- evidence
    level = getattr(mod, "LEVEL", "model_checking")
    ev = {
        "property_id": pid, "tier": tier, "seed": seed, "level": level,
        "coverage": {
            "states": complete_paths, "transitions": tot["decisions"],
            "traces_validated_against_impl": tot["validated"] + replays,
            "samples": samples[:12] or [{"note": "no completed path"}],
            "exhaustive": not harness_errors,
            "explanation": getattr(mod, "EXPLANATION", ""),
            "engine": "pysym (path-exploring symbolic execution of the real Python functions; z3 decides every branch and every obligation)",
            "worlds": per_world, "path_status": status, "obligations_checked": checked,
            "solver_queries": tot["queries"], "solver_seconds": round(tot["solver_s"], 2),
            "solver_unknown": tot["unknown"], "branch_cache_hits": tot["cache_hits"],
            "functions_executed": sorted(f"{f}:{q}" for f, q in funcs if not f.startswith("tests/"))[:400],
            "anchored_mechanism_coverage": anchors_report,
            "bounds": getattr(mod, "BOUNDS", ""),
            "outside_claim": getattr(mod, "OUTSIDE", ""),
            "violations_reported": reported, "known_findings_hit": [
                {"signature": s, "count": d["count"], "example": d["example"]} for s, d in known_hit.items()],
            "harness_errors": harness_errors,
            "paths_aborted_by_an_exception_of_the_code_under_test": aborted,
            "aborted_samples": aborted_samples,
        },
        "assumptions": getattr(mod, "ASSUMPTIONS", []),
        "wall_s": round(wall, 2),
        "violations": len(reported),
    }
    if getattr(a, "collect", None) is not None:
        a.collect["evidence"] = ev
    elif not a.no_evidence and not a.only:
        os.makedirs(os.path.join(VERIF, "evidence"), exist_ok=True)
        with open(os.path.join(VERIF, "evidence", f"{pid}.json"), "w") as f:
            json.dump(ev, f, indent=1, default=str)
    print(f"[{pid}] tier={tier} worlds={len(worlds)} paths={tot['paths']} complete={complete_paths} "
          f"decisions={tot['decisions']} queries={tot['queries']} solver_s={tot['solver_s']:.1f} "
          f"validated={tot['validated']} replays={replays} aborted={aborted} wall={wall:.1f}s status={status}")
    print(f"[{pid}] obligations: {checked}")
    if os.environ.get("VERIF_VERBOSE"):
        for pw in sorted(per_world, key=lambda x: -x["cpu_s"])[:12]:
            print("   ", pw)
    if aborted:
        print(f"[{pid}] paths aborted by an exception of the code under test: {aborted}; e.g. {aborted_samples[:2]}")
    for s, d in known_hit.items():
        print(f"KNOWN-FINDING: property={pid} {d['finding'].get('description', s)} [{s}] (hit on {d['count']} counterexample(s))")
    for r in reported:
        print(f"VIOLATION property={pid} replay={r['replay']}")
        print(f"  {r['signature']} world={r['world']} info={r.get('info')}")
    if harness_errors:
        for h in harness_errors:
            print(f"HARNESS-ERROR [{pid}]: {h}"[:1500])
    if reported:
        return 1
    if harness_errors:
        return 3
    return 0


def write_replay(pid, modname, world, v, sig):
    d = os.path.join(VERIF, "replays")
    os.makedirs(d, exist_ok=True)
    body = {"property": pid, "mod": modname, "world": world, "assignment": v["assignment"],
            "label": v["label"], "signature": sig, "info": v.get("info")}
    h = hashlib.sha1(json.dumps(body, sort_keys=True, default=str).encode()).hexdigest()[:10]
    p = os.path.join(d, f"{pid}-{h}.json")
    with open(p, "w") as f:
        json.dump(body, f, indent=1, default=str)
    return p


def replay_file(mod, path):
    body = json.load(open(path))
    ok, failures, err = replay_concrete(body["mod"], body["world"], body["assignment"], body["label"])
    print(json.dumps({"reproduced": ok, "failures": failures, "error": err}, indent=1))
    if ok:
        print(f"VIOLATION property={body['property']} replay={path}")
        return 1
    return 0 if not err else 3
