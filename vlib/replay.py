"""Concrete replay of a counterexample: plain Python ints, no engine, no builtin shadows.
Reads {"mod","world","assignment","label"} on stdin, prints {"reproduced","failures"}."""
import json
import sys


def main():
    body = json.loads(sys.stdin.read())
    from . import harness

    mod = harness._load(body["mod"])
    env = harness.ConcEnv(body["assignment"])
    try:
        harness._run_path(mod, env, body["world"])
    except harness.PathInfeasible:
        env.failures.append({"label": "replay:assumption-violated", "info": None})
    except harness.LoopBudget as e:
        pass
    label = body["label"]
    labels = [f["label"] for f in env.failures]
    rep = label in labels
    print(json.dumps({"reproduced": rep, "failures": env.failures[:10], "diverged": env.diverged}, default=str))


if __name__ == "__main__":
    main()
