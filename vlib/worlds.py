"""World families for the whole-run checks (JSON-able specs consumed by simworld.build)."""


def G(name, tasks, edges, **k):
    d = {"name": name, "tasks": list(tasks), "edges": [list(e) for e in edges], "release": "sym", "deadline": "sym"}
    d.update(k)
    return d


def indep(n, **k):
    return [G(f"G{i}", [f"T{i}"], [], **k) for i in range(n)]


def chain(n, **k):
    ts = [f"T{i}" for i in range(n)]
    return [G("G0", ts, [(ts[i], ts[i + 1]) for i in range(n - 1)], **k)]


def fork(**k):
    return [G("G0", ["A", "B", "C"], [("A", "B"), ("A", "C")], **k)]


def join(**k):
    return [G("G0", ["A", "B", "C"], [("A", "C"), ("B", "C")], **k)]


def diamond(**k):
    return [G("G0", ["A", "B", "C", "D"], [("A", "B"), ("A", "C"), ("B", "D"), ("C", "D")], **k)]


def skipdiamond(**k):
    # A->B, A->C, C->B : the shape on which depth-first used to repeat a node
    return [G("G0", ["A", "B", "C"], [("A", "B"), ("A", "C"), ("C", "B")], **k)]


def wshape(**k):
    # two sources X, W; Y is a child of both, Z only of X; X lists Z before Y
    return [G("G0", ["X", "W", "Y", "Z"], [("X", "Z"), ("X", "Y"), ("W", "Y")], **k)]


def cond2(p=(0.5, 0.5), **k):
    return [G("G0", ["C", "a", "b", "J"], [("C", "a"), ("C", "b"), ("a", "J"), ("b", "J")],
              cond={"C": {"a": p[0], "b": p[1]}}, terminal=["J"], **k)]


def cond3(**k):
    return [G("G0", ["C", "a", "b", "c", "J"], [("C", "a"), ("C", "b"), ("C", "c"), ("a", "J"), ("b", "J"), ("c", "J")],
              cond={"C": {"a": 0.25, "b": 0.25, "c": 0.5}}, terminal=["J"], **k)]


def cond_uneven(**k):
    return [G("G0", ["C", "a", "a2", "b", "J"], [("C", "a"), ("a", "a2"), ("a2", "J"), ("C", "b"), ("b", "J")],
              cond={"C": {"a": 0.5, "b": 0.5}}, terminal=["J"], **k)]


def cond_nojoin(**k):
    # a conditional whose branches never re-join: each branch ends in its own sink
    return [G("G0", ["C", "a", "a2", "b", "b2"], [("C", "a"), ("a", "a2"), ("C", "b"), ("b", "b2")], cond={"C": {"a": 0.5, "b": 0.5}}, **k)]


def cond_fanbranch(**k):
    # one branch is itself a fan-out of three parallel tasks that are fused again before the join
    return [G("G0", ["C", "a", "x", "x1", "x2", "x3", "xf", "J"],
              [("C", "a"), ("C", "x"), ("x", "x1"), ("x", "x2"), ("x", "x3"), ("x1", "xf"), ("x2", "xf"), ("x3", "xf"), ("a", "J"), ("xf", "J")],
              cond={"C": {"a": 0.5, "x": 0.5}}, terminal=["J"], **k)]


def cond_tail(**k):
    # conditional followed by work after the join
    return [G("G0", ["C", "a", "b", "J", "Z"], [("C", "a"), ("C", "b"), ("a", "J"), ("b", "J"), ("J", "Z")],
              cond={"C": {"a": 0.5, "b": 0.5}}, terminal=["J"], **k)]


def cond_series(**k):
    return [G("G0", ["C", "a", "b", "J", "D", "c", "d", "K"],
              [("C", "a"), ("C", "b"), ("a", "J"), ("b", "J"), ("J", "D"), ("D", "c"), ("D", "d"), ("c", "K"), ("d", "K")],
              cond={"C": {"a": 0.5, "b": 0.5}, "D": {"c": 0.5, "d": 0.5}}, terminal=["J", "K"], **k)]


def cond_nested(**k):
    return [G("G0", ["C", "a", "D", "c", "d", "K", "J"],
              [("C", "a"), ("C", "D"), ("D", "c"), ("D", "d"), ("c", "K"), ("d", "K"), ("K", "J"), ("a", "J")],
              cond={"C": {"a": 0.5, "D": 0.5}, "D": {"c": 0.5, "d": 0.5}}, terminal=["J", "K"], **k)]


C1 = [[{"CPU": 1}]]
C2 = [[{"CPU": 2}]]
C1X2 = [[{"CPU": 1}, {"CPU": 1}]]
HETERO = [[{"CPU": 2}, {"CPU": 1}]]
P2 = [[{"CPU": 1}], [{"CPU": 1}]]
CSYM = [[{"CPU": "sym"}]]
CSYM2 = [[{"CPU": "sym"}, {"CPU": "sym"}]]
MULTI = [[[["CPU", "sym"], ["GPU", 1], ["CPU", "sym"]]]]
CPUGPU = [[{"CPU": "sym", "GPU": "sym"}]]
# two workers with named resource instances (GPU:0, GPU:1 | GPU:2, GPU:3), as the loaders build from "name:id"
PINNED = [[[["GPU", 1, "0"], ["GPU", 1, "1"]], [["GPU", 1, "2"], ["GPU", 1, "3"]]]]


def W(name, graphs, cluster=C1, policy="EDF", **k):
    d = {"name": name, "graphs": graphs, "cluster": cluster, "policy": policy}
    d.update(k)
    return d


def fixed_times(graphs, release=0, deadline=10 ** 6):
    out = []
    for g in graphs:
        g = dict(g)
        g["release"] = release
        g["deadline"] = deadline
        out.append(g)
    return out
