"""Run a pysym part and a model-capture part of one property and merge their evidence."""
import json
import os
import sys
import time

from . import harness, mipcheck


def main(pid, parts, argv=None, level="model_checking"):
    """parts: list of (kind, module) with kind in {'sym', 'mip'}."""
    argv = sys.argv[1:] if argv is None else argv
    if "--replay" in argv:
        path = argv[argv.index("--replay") + 1]
        body = json.load(open(path))
        for kind, mod in parts:
            if body.get("mod") == mod.__name__:
                return (harness if kind == "sym" else mipcheck).main(mod, argv)
        return 3
    t0 = time.time()
    rcs, evs = [], []
    for kind, mod in parts:
        col = {}
        rc = (harness if kind == "sym" else mipcheck).main(mod, argv, collect=col)
        rcs.append(rc)
        evs.append((kind, mod.__name__, col.get("evidence")))
    tier = next((e[2]["tier"] for e in evs if e[2]), "quick")
    seed = next((e[2]["seed"] for e in evs if e[2]), 0)
    cov = {"states": 0, "transitions": 0, "traces_validated_against_impl": 0, "samples": [], "parts": []}
    assumptions, viol = [], 0
    for kind, name, ev in evs:
        if not ev:
            continue
        c = ev["coverage"]
        if kind == "sym":
            cov["states"] += c.get("states", 0)
            cov["transitions"] += c.get("transitions", 0)
            cov["traces_validated_against_impl"] += c.get("traces_validated_against_impl", 0)
        else:
            cov["states"] += c.get("solver_queries", 0)
            cov["transitions"] += c.get("programs", 0)
            cov["traces_validated_against_impl"] += c.get("disagreements_checked", 0)
        cov["samples"] += c.get("samples", [])[:4]
        cov["parts"].append({"part": name, "kind": "symbolic execution (pysym)" if kind == "sym" else "model capture (mip2smt)", "coverage": c})
        assumptions += ev.get("assumptions", [])
        viol += ev.get("violations", 0)
    cov["explanation"] = "states = explored paths (pysym part) + solver queries over captured models (mip2smt part); transitions = branch decisions + captured models; see parts"
    cov["exhaustive"] = all(rc == 0 for rc in rcs)
    ev = {"property_id": pid, "tier": tier, "seed": seed, "level": level, "coverage": cov, "assumptions": sorted(set(assumptions)),
          "wall_s": round(time.time() - t0, 2), "violations": viol}
    if "--no-evidence" not in argv and "--only" not in argv:
        os.makedirs(os.path.join(harness.VERIF, "evidence"), exist_ok=True)
        json.dump(ev, open(os.path.join(harness.VERIF, "evidence", f"{pid}.json"), "w"), indent=1, default=str)
    if any(rc == 1 for rc in rcs):
        return 1
    if any(rc != 0 for rc in rcs):
        return 3
    return 0
