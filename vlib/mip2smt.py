"""mip2smt -- capture the optimisation model that a real scheduler builds inside schedule(),
translate it to z3 (regenerated from the live model object on every run) and give access to
*every* feasible solution, not only the optimum the MIP solver happens to return.

Supported: gurobipy models (linear rows, bilinear rows over binaries/integers, indicator and AND
general constraints), docplex models (linear rows), z3.Optimize (assertions verbatim).
An unknown constraint kind raises `Untranslatable` (the check then exits 3; nothing is dropped).
"""
import contextlib

import gurobipy as gp
from gurobipy import GRB
from z3 import z3


class Untranslatable(Exception):
    pass


# ------------------------------------------------------------------------------ gurobi capture

class _CapModel(gp.Model):
    _sink = None

    def optimize(self, *a, **k):
        self.update()
        if _CapModel._sink is not None:
            _CapModel._sink.append(self)
        return super().optimize(*a, **k)


class _GPProxy:
    """Stands in for the module-global `gp` of a scheduler module; only `Model` differs."""

    Model = _CapModel

    def __getattr__(self, n):
        return getattr(gp, n)


@contextlib.contextmanager
def capture_gurobi(module, scheduler):
    """Within the context, models built by `module` (its global `gp`) are recorded when they are
    optimised, and the scheduler instance's `_add_variables` result (task -> optimiser variables)
    is recorded too."""
    rec = {"models": [], "task_vars": [], "workers": []}
    old_gp = module.gp
    module.gp = _GPProxy()
    _CapModel._sink = rec["models"]
    orig_add = scheduler._add_variables

    def add_variables(*a, **k):
        r = orig_add(*a, **k)
        rec["task_vars"].append(r)
        # the worker index map is the last positional argument of both schedulers
        rec["workers"].append(a[-1] if a else k.get("workers"))
        return r

    scheduler._add_variables = add_variables
    try:
        yield rec
    finally:
        module.gp = old_gp
        _CapModel._sink = None
        scheduler._add_variables = orig_add


def _num(c):
    f = float(c)
    if f.is_integer():
        return int(f)
    return z3.RealVal(repr(f))


class Z3Model:
    """z3 image of a MIP model."""

    def __init__(self):
        self.vars = {}  # name -> z3 var
        self.cons = []
        self.objective = None
        self.sense = 1  # 1 minimise, -1 maximise
        self.stats = {}

    def solver(self, timeout_ms=60000):
        s = z3.Solver()
        s.set("timeout", timeout_ms)
        s.add(self.cons)
        return s


def gurobi_to_z3(m):
    out = Z3Model()
    zv = out.vars
    cons = out.cons
    # Gurobi accepts several variables with one name; the translation is keyed by name, so later homonyms are renamed in the captured model
    seen = {}
    for v in m.getVars():
        k = seen.get(v.VarName, 0)
        seen[v.VarName] = k + 1
        if k:
            v.VarName = f"{v.VarName}#dup{k}"
    if any(k > 1 for k in seen.values()):
        m.update()
    for v in m.getVars():
        n = v.VarName
        if v.VType == GRB.BINARY:
            z = z3.Int(n)
            cons += [z >= 0, z <= 1]
            if v.LB > 0.5:
                cons.append(z >= 1)
            if v.UB < 0.5:
                cons.append(z <= 0)
        elif v.VType == GRB.INTEGER:
            z = z3.Int(n)
            if v.LB > -1e20:
                cons.append(z >= int(-(-v.LB // 1)))  # ceil
            if v.UB < 1e20:
                cons.append(z <= int(v.UB // 1))
        elif v.VType == GRB.CONTINUOUS:
            z = z3.Real(n)
            if v.LB > -1e20:
                cons.append(z >= _num(v.LB))
            if v.UB < 1e20:
                cons.append(z <= _num(v.UB))
        else:
            raise Untranslatable(f"variable type {v.VType}")
        if n in zv:
            raise Untranslatable(f"duplicate variable name {n}")
        zv[n] = z

    def lin(e):
        s = _num(e.getConstant())
        for i in range(e.size()):
            s = s + _num(e.getCoeff(i)) * zv[e.getVar(i).VarName]
        return s

    def cmp(l, sense, r):
        r = _num(r)
        if sense == "<":
            return l <= r
        if sense == ">":
            return l >= r
        if sense == "=":
            return l == r
        raise Untranslatable(f"sense {sense}")

    for c in m.getConstrs():
        cons.append(cmp(lin(m.getRow(c)), c.Sense, c.RHS))
    binary = {v.VarName for v in m.getVars() if v.VType == GRB.BINARY}

    def prod(a, b):
        # product of two 0/1 variables stays linear for the SMT solver
        if a.VarName in binary and b.VarName in binary:
            return z3.If(z3.And(zv[a.VarName] == 1, zv[b.VarName] == 1), 1, 0)
        if a.VarName in binary:
            return z3.If(zv[a.VarName] == 1, zv[b.VarName], 0)
        if b.VarName in binary:
            return z3.If(zv[b.VarName] == 1, zv[a.VarName], 0)
        return zv[a.VarName] * zv[b.VarName]

    for q in m.getQConstrs():
        e = m.getQCRow(q)
        s = lin(e.getLinExpr())
        for i in range(e.size()):
            s = s + _num(e.getCoeff(i)) * prod(e.getVar1(i), e.getVar2(i))
        cons.append(cmp(s, q.QCSense, q.QCRHS))
    ngen = 0
    for g in m.getGenConstrs():
        ngen += 1
        if g.GenConstrType == GRB.GENCONSTR_INDICATOR:
            b, val, e, sense, rhs = m.getGenConstrIndicator(g)
            cons.append(z3.Implies(zv[b.VarName] == int(val), cmp(lin(e), sense, rhs)))
        elif g.GenConstrType == GRB.GENCONSTR_AND:
            r, ops = m.getGenConstrAnd(g)
            cons.append(z3.And(zv[r.VarName] >= 0, zv[r.VarName] <= 1))  # the resultant of AND is 0/1 whatever its declared type
            cons.append((zv[r.VarName] == 1) == z3.And([zv[o.VarName] == 1 for o in ops]))
        else:
            raise Untranslatable(f"general constraint type {g.GenConstrType}")
    if m.NumSOS or m.NumPWLObjVars:
        raise Untranslatable("SOS / PWL objective")
    obj = m.getObjective()
    if isinstance(obj, gp.QuadExpr):
        s = lin(obj.getLinExpr())
        for i in range(obj.size()):
            s = s + _num(obj.getCoeff(i)) * prod(obj.getVar1(i), obj.getVar2(i))
        out.objective = s
    else:
        out.objective = lin(obj)
    out.sense = m.ModelSense
    out.stats = {"vars": m.NumVars, "linear": m.NumConstrs, "quadratic": m.NumQConstrs, "general": ngen}
    return out


def model_values(zm, model):
    """{name: python number} for all translated variables under a z3 model."""
    vals = {}
    for n, z in zm.vars.items():
        v = model.eval(z, model_completion=True)
        if z3.is_int_value(v):
            vals[n] = v.as_long()
        else:
            vals[n] = float(v.numerator_as_long()) / float(v.denominator_as_long())
    return vals


@contextlib.contextmanager
def gurobi_fixed(m, values):
    """Fix every variable of the *real* model to the given values, re-optimise; yields the status.
    Restores bounds afterwards."""
    saved = []
    for v in m.getVars():
        saved.append((v, v.LB, v.UB))
        x = values[v.VarName]
        v.LB = x
        v.UB = x
    m.update()
    gp.Model.optimize(m)
    try:
        yield m.Status
    finally:
        for v, lb, ub in saved:
            v.LB = lb
            v.UB = ub
        m.update()


# ------------------------------------------------------------------------------ z3.Optimize capture

def z3opt_to_z3(opt):
    out = Z3Model()
    out.cons = list(opt.assertions())
    out.stats = {"assertions": len(out.cons)}
    return out


# ------------------------------------------------------------------------------ docplex

def docplex_to_z3(m):
    """Translate a docplex.mp.model.Model (linear constraints only; anything else aborts)."""
    out = Z3Model()
    zv, cons = out.vars, out.cons
    for v in m.iter_variables():
        kind = v.vartype.short_name  # 'binary' | 'integer' | 'continuous'
        n = v.name
        if n in zv:
            raise Untranslatable(f"duplicate variable name {n}")
        if kind in ("binary", "integer"):
            z = z3.Int(n)
            if kind == "binary":
                cons += [z >= 0, z <= 1]
            if v.lb > -1e20:
                cons.append(z >= int(-(-v.lb // 1)))
            if v.ub < 1e20:
                cons.append(z <= int(v.ub // 1))
        elif kind == "continuous":
            z = z3.Real(n)
            if v.lb > -1e20:
                cons.append(z >= _num(v.lb))
            if v.ub < 1e20:
                cons.append(z <= _num(v.ub))
        else:
            raise Untranslatable(f"docplex variable type {kind}")
        zv[n] = z

    def lin(e):
        if isinstance(e, (int, float)):
            return _num(e)
        if hasattr(e, "is_quad_expr") and e.is_quad_expr():
            raise Untranslatable("quadratic docplex expression")
        s = _num(e.get_constant()) if hasattr(e, "get_constant") else _num(getattr(e, "constant", 0))
        for var, k in e.iter_terms():
            s = s + _num(k) * zv[var.name]
        return s

    n = 0
    for c in m.iter_constraints():
        n += 1
        if type(c).__name__ != "LinearConstraint":
            raise Untranslatable(f"docplex constraint type {type(c).__name__}")
        l, r = lin(c.left_expr), lin(c.right_expr)
        sense = c.sense.name
        if sense == "LE":
            cons.append(l <= r)
        elif sense == "GE":
            cons.append(l >= r)
        elif sense == "EQ":
            cons.append(l == r)
        else:
            raise Untranslatable(f"docplex sense {sense}")
    if m.number_of_constraints != n:
        raise Untranslatable(f"docplex model has {m.number_of_constraints} constraints, {n} were iterated")
    out.objective = lin(m.objective_expr)
    out.sense = 1 if m.is_minimized() else -1
    out.stats = {"vars": m.number_of_variables, "linear": n}
    return out
