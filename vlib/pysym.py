"""pysym -- a small path-exploring symbolic executor for plain Python code.

Values are proxy objects (`SNum`, `SBool`) that carry *linear forms* over named z3
variables.  Arithmetic builds new linear forms in pure Python; a comparison builds an
atom; `bool(atom)` asks the engine to decide the branch (z3, incremental), and the engine
enumerates all feasible paths depth first by re-executing the harness.

Nothing is silently concretised: operations the engine does not model raise
`Unsupported` (a BaseException, so that `except Exception` in the code under test cannot
swallow it) and the path is reported inconclusive.
"""
import builtins
import time as _time
from fractions import Fraction
from math import gcd, floor

from z3 import z3

TWO53 = 2 ** 53


class EngineSignal(BaseException):
    """Base of engine control flow exceptions (never caught by code under test)."""


class Unsupported(EngineSignal):
    pass


class Inconclusive(EngineSignal):
    """Solver returned unknown / budget exhausted."""


class PathInfeasible(EngineSignal):
    """An assumption made the current path infeasible: silently drop it."""


class PrefixReached(EngineSignal):
    """Raised in splitting mode when the free-decision depth limit is reached."""


class LoopBudget(EngineSignal):
    """Raised by harnesses when a step budget is exceeded."""


ENGINE = None  # the active engine (one per process)


def _is_num(x):
    return builtins.type(x) in (int, Fraction, float, bool)


def _to_frac(x):
    t = builtins.type(x)
    if t is int or t is bool:
        return int(x)
    if t is Fraction:
        return x.numerator if x.denominator == 1 else x
    if t is float:
        if x != x or x in (float("inf"), float("-inf")):
            raise Unsupported("non-finite float")
        f = Fraction(x)
        return f.numerator if f.denominator == 1 else f
    raise Unsupported(f"numeric operand of type {t}")


class SBool:
    """Symbolic boolean: either an atom (lin OP 0) or a compound z3 formula."""

    __slots__ = ("key", "z_", "lin", "op")

    def __init__(self, z=None, lin=None, op=None, key=None):
        self.z_ = z
        self.lin = lin
        self.op = op
        self.key = key

    @property
    def z(self):
        if self.z_ is None:
            self.z_ = ENGINE.atom_z(self)
        return self.z_

    def __bool__(self):
        return ENGINE.branch(self)

    def __invert__(self):
        return snot(self)

    def __and__(self, o):
        return sand(self, o)

    __rand__ = __and__

    def __or__(self, o):
        return sor(self, o)

    __ror__ = __or__

    def __eq__(self, o):
        if isinstance(o, SBool):
            return SBool(z=(self.z == o.z))
        if builtins.type(o) is bool:
            return self if o else snot(self)
        return False

    def __ne__(self, o):
        r = self.__eq__(o)
        return snot(r) if isinstance(r, SBool) else (not r)

    def __hash__(self):
        raise Unsupported("hash(SBool)")

    def __index__(self):
        raise Unsupported("index(SBool)")

    def __int__(self):
        raise Unsupported("int(SBool)")

    def __add__(self, o):
        raise Unsupported("SBool arithmetic")

    __radd__ = __sub__ = __rsub__ = __mul__ = __rmul__ = __add__

    def __repr__(self):
        return "<symbool>"

    __str__ = __repr__

    def __format__(self, spec):
        return "<symbool>"


def zb(x):
    """z3 Bool of a python bool / SBool."""
    if isinstance(x, SBool):
        return x.z
    if builtins.type(x) is bool:
        return z3.BoolVal(x)
    if isinstance(x, z3.BoolRef):
        return x
    raise Unsupported(f"boolean operand of type {builtins.type(x)}")


def snot(a):
    if builtins.type(a) is bool:
        return not a
    if a.lin is not None:
        return _neg_atom(a)
    return SBool(z=z3.Not(a.z))


def sand(*xs):
    out = []
    for x in xs:
        if builtins.type(x) is bool:
            if not x:
                return False
            continue
        out.append(zb(x))
    if not out:
        return True
    if len(out) == 1 and isinstance(xs[0], SBool) and len(xs) == 1:
        return xs[0]
    return SBool(z=z3.And(out) if len(out) > 1 else out[0])


def sor(*xs):
    out = []
    for x in xs:
        if builtins.type(x) is bool:
            if x:
                return True
            continue
        out.append(zb(x))
    if not out:
        return False
    return SBool(z=z3.Or(out) if len(out) > 1 else out[0])


def simplies(a, b):
    return sor(snot(a), b)


def sall(xs):
    return sand(*list(xs))


def sany(xs):
    return sor(*list(xs))


def site(c, a, b):
    """if-then-else on values without forking (numbers only)."""
    if builtins.type(c) is bool:
        return a if c else b
    eng = ENGINE
    isint = _kind_int(a) and _kind_int(b)
    v = eng.fresh(isint, "ite")
    eng.add(z3.If(c.z, v.zterm() == zn(a), v.zterm() == zn(b)), keep_model=False)
    return v


def _kind_int(x):
    if isinstance(x, SNum):
        return x.isint
    return builtins.type(x) in (int, bool) or (builtins.type(x) is Fraction and x.denominator == 1)


def zn(x):
    """z3 arithmetic term of a python number / SNum."""
    if isinstance(x, SNum):
        return x.zterm()
    x = _to_frac(x)
    if builtins.type(x) is int:
        return z3.IntVal(x)
    return z3.RealVal(str(x))


# atom ops
LE, LT, EQ, NE = "<=", "<", "==", "!="


def _canon(c, k, op, isint):
    """Canonical key of the atom  sum(c_i x_i) + k  OP 0."""
    items = sorted(c.items())
    if isint:
        g = 0
        for _, v in items:
            g = gcd(g, v)
        if op == LT:  # a < 0  <=>  a + 1 <= 0 over ints
            op, k = LE, k + 1
        if op in (EQ, NE):
            if k % g != 0:
                return (op == NE)  # constant truth value
            sgn = -1 if items[0][1] < 0 else 1
            items = [(n, sgn * v // g) for n, v in items]
            k = sgn * k // g
        else:
            items = [(n, v // g) for n, v in items]
            k = -floor(Fraction(-k, g))  # sum c' x <= floor(-k/g)  =>  sum c'x + ceil(k/g) <= 0
    else:
        lead = items[0][1]
        if op in (EQ, NE):
            items = [(n, Fraction(v) / lead) for n, v in items]
            k = Fraction(k) / lead
        else:
            a = abs(lead)
            items = [(n, Fraction(v) / a) for n, v in items]
            k = Fraction(k) / a
    return (op, tuple(items), k)


def make_atom(lin, op):
    """lin: SNum or number. Returns bool or SBool."""
    if not isinstance(lin, SNum):
        v = lin
        return {LE: v <= 0, LT: v < 0, EQ: v == 0, NE: v != 0}[op]
    key = _canon(lin.c, lin.k, op, lin.isint)
    if builtins.type(key) is bool:
        return key
    return SBool(lin=lin, op=op, key=key)


def _neg_atom(a):
    lin, op = a.lin, a.op
    if op == EQ:
        return make_atom(lin, NE)
    if op == NE:
        return make_atom(lin, EQ)
    if op == LE:  # not(l <= 0)  <=>  -l < 0
        return make_atom(-lin, LT)
    return make_atom(-lin, LE)  # not(l < 0) <=> -l <= 0


class SNum:
    """Symbolic number: linear form  sum(c[name] * var) + k.

    isint: the value is mathematically an integer (all vars Int, all coefficients int).
    fl:    the python value would have been a `float` (for type() fidelity).
    """

    __slots__ = ("c", "k", "isint", "fl")

    def __init__(self, c, k, isint, fl=False):
        self.c = c
        self.k = k
        self.isint = isint
        self.fl = fl

    # ---- construction helpers
    @staticmethod
    def mk(c, k, isint, fl):
        if not c:
            if fl:
                return float(k)
            return k
        return SNum(c, k, isint, fl)

    def zterm(self):
        return ENGINE.lin_z(self)

    # ---- arithmetic
    def _coerce(self, o):
        if isinstance(o, SNum):
            return o
        if isinstance(o, SBool):
            raise Unsupported("SBool in arithmetic")
        if not _is_num(o):
            return None
        return o

    def __add__(self, o):
        o = self._coerce(o)
        if o is None:
            return NotImplemented
        if isinstance(o, SNum):
            c = dict(self.c)
            for n, v in o.c.items():
                nv = c.get(n, 0) + v
                if nv == 0:
                    c.pop(n, None)
                else:
                    c[n] = nv
            return SNum.mk(c, self.k + o.k, self.isint and o.isint, self.fl or o.fl)
        isfl = builtins.type(o) is float
        f = _to_frac(o)
        return SNum(self.c, self.k + f, self.isint and builtins.type(f) is int, self.fl or isfl)

    __radd__ = __add__

    def __neg__(self):
        return SNum({n: -v for n, v in self.c.items()}, -self.k, self.isint, self.fl)

    def __pos__(self):
        return self

    def __sub__(self, o):
        o = self._coerce(o)
        if o is None:
            return NotImplemented
        if isinstance(o, SNum):
            return self + (-o)
        if builtins.type(o) is float:
            return self + (-o)
        return self + (-_to_frac(o))

    def __rsub__(self, o):
        return (-self) + o

    def __mul__(self, o):
        o = self._coerce(o)
        if o is None:
            return NotImplemented
        if isinstance(o, SNum):
            return ENGINE.product(self, o)
        isfl = builtins.type(o) is float
        f = _to_frac(o)
        if f == 0:
            return 0.0 if (isfl or self.fl) else 0
        isint = self.isint and builtins.type(f) is int
        r = SNum({n: v * f for n, v in self.c.items()}, self.k * f, isint, self.fl or isfl)
        if isfl or self.fl:
            ENGINE.fl_obligations.append(self)
            ENGINE.fl_obligations.append(r)
        return r

    __rmul__ = __mul__

    def __truediv__(self, o):
        o = self._coerce(o)
        if o is None:
            return NotImplemented
        if isinstance(o, SNum):
            return ENGINE.quotient(self, o)
        f = _to_frac(o)
        if f == 0:
            raise ZeroDivisionError("division by zero")
        inv = Fraction(1) / f
        inv = inv.numerator if inv.denominator == 1 else inv
        isint = self.isint and builtins.type(inv) is int
        return SNum({n: v * inv for n, v in self.c.items()}, self.k * inv, isint, True)

    def __rtruediv__(self, o):
        return ENGINE.quotient(o, self)

    def __floordiv__(self, o):
        if isinstance(o, SNum) or builtins.type(o) is not int or o <= 0 or not self.isint:
            raise Unsupported("floordiv with non-constant / non-positive divisor")
        if o == 1:
            return self
        q = ENGINE.fresh(True, "fdiv")
        d = self - q * o
        ENGINE.add(z3.And(zn(d) >= 0, zn(d) <= o - 1), keep_model=False)
        return q

    def __mod__(self, o):
        q = self.__floordiv__(o)
        return self - q * o

    def __rfloordiv__(self, o):
        raise Unsupported("rfloordiv")

    __rmod__ = __pow__ = __rpow__ = __rfloordiv__

    def __abs__(self):
        if self >= 0:
            return self
        return -self

    def __round__(self, n=None):
        if n is not None:
            raise Unsupported("round with ndigits")
        if self.isint:
            return SNum(self.c, self.k, True, False)
        return ENGINE.round_half_even(self)

    def __trunc__(self):
        raise Unsupported("math.trunc(SNum)")

    def __int__(self):
        raise Unsupported("builtin int() on a symbolic number (missing int shadow)")

    def __float__(self):
        raise Unsupported("builtin float() on a symbolic number")

    def __index__(self):
        raise Unsupported("symbolic number used as an index / C-level integer")

    def __hash__(self):
        raise Unsupported("hash() of a symbolic number")

    # ---- comparisons
    def _cmp(self, o, op, swap=False):
        if builtins.type(o) is float and o in (float("inf"), float("-inf")):
            # every symbolic number is finite
            below = o > 0  # self < +inf
            if swap:
                below = not below
            return {LT: below, LE: below, EQ: False, NE: True}[op]
        o2 = self._coerce(o)
        if o2 is None:
            return NotImplemented
        d = (o2 - self) if swap else (self - o2)
        return make_atom(d, op)

    def __lt__(self, o):
        return self._cmp(o, LT)

    def __le__(self, o):
        return self._cmp(o, LE)

    def __gt__(self, o):
        return self._cmp(o, LT, swap=True)

    def __ge__(self, o):
        return self._cmp(o, LE, swap=True)

    def __eq__(self, o):
        r = self._cmp(o, EQ)
        return False if r is NotImplemented else r

    def __ne__(self, o):
        r = self._cmp(o, NE)
        return True if r is NotImplemented else r

    def __bool__(self):
        return bool(self != 0)

    # ---- rendering: a token that the engine can map back to the term
    def __format__(self, spec):
        return ENGINE.token(self)

    def __str__(self):
        return ENGINE.token(self)

    __repr__ = __str__


def sym_type(x):
    if isinstance(x, SNum):
        return float if x.fl else int
    if isinstance(x, SBool):
        return bool
    return builtins.type(x)


def _sym_int(x=0, *a):
    if isinstance(x, SNum):
        if x.isint:
            return SNum(x.c, x.k, True, False)
        return ENGINE.truncate(x)
    if isinstance(x, SBool):
        raise Unsupported("int(SBool)")
    if isinstance(x, str) and not a:
        t = ENGINE.untoken(x) if ENGINE is not None else None
        if t is not None:
            return _sym_int(t)
    return builtins.int(x, *a)


class _TypeShadow:
    """Stands in for a builtin type name (`int`, `float`) inside a module under test:
    calling it converts (symbolically if needed); comparing it with the real type is
    equality; isinstance() against it behaves like the real type on proxies."""

    def __init__(self, real, conv):
        self.real = real
        self.conv = conv

    def __call__(self, *a, **k):
        return self.conv(*a, **k)

    def __eq__(self, o):
        return o is self.real or o is self

    def __ne__(self, o):
        return not self.__eq__(o)

    def __hash__(self):
        return hash(self.real)

    def __instancecheck__(self, x):
        return sym_isinstance(x, self.real)

    def __repr__(self):
        return repr(self.real)


def _sym_float(x=0.0):
    if isinstance(x, SNum):
        return SNum(x.c, x.k, x.isint, True)
    if isinstance(x, str):
        t = ENGINE.untoken(x) if ENGINE is not None else None
        if t is not None:
            return _sym_float(t)
    return builtins.float(x)


sym_int = _TypeShadow(int, _sym_int)
sym_float = _TypeShadow(float, _sym_float)


def sym_round(x, n=None):
    if isinstance(x, SNum):
        return x.__round__(n)
    return builtins.round(x) if n is None else builtins.round(x, n)


def sym_isinstance(x, cls):
    if isinstance(x, SNum):
        t = float if x.fl else int
        return issubclass(t, cls) if not isinstance(cls, tuple) else any(issubclass(t, c) for c in cls)
    if isinstance(x, SBool):
        return issubclass(bool, cls) if not isinstance(cls, tuple) else any(issubclass(bool, c) for c in cls)
    return builtins.isinstance(x, cls)


class Engine:
    def __init__(self, timeout_ms=20000, seed=0):
        self.solver = z3.SolverFor("QF_LIA") if False else z3.Solver()
        self.solver.set("timeout", timeout_ms)
        self.trail = []  # entries: [taken(bool), other_pending(bool), model_for_other]
        self.pos = 0
        self.prefix_len = 0
        # statistics (whole exploration)
        self.paths = 0
        self.queries = 0
        self.solver_s = 0.0
        self.unknown = 0
        self.decisions = 0
        self.cache_hits = 0
        self.max_depth = 0
        self.nonlinear = False
        # persistent caches
        self._zvars = {}
        self._lin_z_cache = {}
        self._atom_z_cache = {}
        self._not_cache = {}
        self._bound_cache = {}
        self._zero_i = z3.IntVal(0)
        self._zero_r = z3.RealVal(0)
        self.depth_limit = None
        self._reset_path()

    # ------------------------------------------------------------------ per path
    def _reset_path(self):
        self.facts = {}
        self.counter = {}
        self.model = {}
        self.vars = {}  # name -> (isint, lo, hi)
        self.inputs = []  # declared input names in order
        self.tokens = []
        self.free_depth = 0
        self.fl_obligations = []

    # ------------------------------------------------------------------ variables
    def zvar(self, name, isint):
        v = self._zvars.get(name)
        if v is None:
            v = z3.Int(name) if isint else z3.Real(name)
            self._zvars[name] = v
        return v

    def _name(self, base):
        i = self.counter.get(base, 0)
        self.counter[base] = i + 1
        return f"{base}#{i}" if i or base in ("ite", "fdiv", "prod", "quot", "round", "trunc", "ch", "nd") else base

    def declare(self, base, isint=True, lo=None, hi=None, is_input=True):
        name = self._name(base)
        zv = self.zvar(name, isint)
        self.vars[name] = (isint, lo, hi)
        bk = (name, lo, hi)
        bc = self._bound_cache.get(bk)
        if bc is None:
            bc = []
            if lo is not None:
                bc.append(zv >= lo)
            if hi is not None:
                bc.append(zv <= hi)
            self._bound_cache[bk] = bc
        if bc:
            self.solver.add(*bc)
        if self.model is not None:
            d = 0
            if lo is not None and d < lo:
                d = lo
            if hi is not None and d > hi:
                d = hi
            self.model[name] = d
        if is_input:
            self.inputs.append(name)
        return SNum({name: 1}, 0, isint, not isint)

    def fresh(self, isint, base):
        return self.declare(base, isint, is_input=False)

    # ------------------------------------------------------------------ z3 terms
    def lin_z(self, x):
        key = (tuple(sorted(x.c.items())), x.k)
        t = self._lin_z_cache.get(key)
        if t is None:
            terms = []
            for n, v in key[0]:
                zv = self._zvars[n]
                if v == 1:
                    terms.append(zv)
                elif builtins.type(v) is int:
                    terms.append(zv * v)
                else:
                    terms.append(z3.ToReal(zv) * z3.RealVal(str(v)) if z3.is_int(zv) else zv * z3.RealVal(str(v)))
            k = x.k
            allint = all(z3.is_int(t) for t in terms) and builtins.type(k) is int
            if not allint:
                terms = [z3.ToReal(t) if z3.is_int(t) else t for t in terms]
                kz = z3.RealVal(str(k))
            else:
                kz = z3.IntVal(k)
            t = z3.Sum(terms + [kz]) if (k != 0 or not terms) else (z3.Sum(terms) if len(terms) > 1 else terms[0])
            self._lin_z_cache[key] = t
        return t

    def atom_z(self, a):
        z = self._atom_z_cache.get(a.key)
        if z is None:
            t = self.lin_z(a.lin)
            zero = self._zero_r if z3.is_real(t) else self._zero_i
            z = {LE: t <= zero, LT: t < zero, EQ: t == zero, NE: t != zero}[a.op]
            self._atom_z_cache[a.key] = z
        return z

    def eval_lin(self, x):
        m = self.model
        s = x.k
        for n, v in x.c.items():
            s += v * m[n]
        return s

    # ------------------------------------------------------------------ solver
    def _check(self, *extra):
        t0 = _time.perf_counter()
        r = self.solver.check(*extra)
        self.solver_s += _time.perf_counter() - t0
        self.queries += 1
        if r == z3.unknown:
            self.unknown += 1
            raise Inconclusive(f"solver unknown: {self.solver.reason_unknown()}")
        return r == z3.sat

    def _extract_model(self):
        m = self.solver.model()
        out = {}
        for n, (isint, lo, hi) in self.vars.items():
            v = m.eval(self._zvars[n], model_completion=True)
            if z3.is_int_value(v):
                out[n] = v.as_long()
            elif z3.is_rational_value(v):
                f = Fraction(v.numerator_as_long(), v.denominator_as_long())
                out[n] = f.numerator if f.denominator == 1 else f
            else:
                return None
        return out

    def add(self, zexpr, keep_model=True):
        self.solver.add(zexpr)
        if not keep_model:
            self.model = None

    def _model_says(self, sb):
        """Truth of sb in the current model, or None if it cannot be evaluated."""
        if self.model is None:
            return None
        if sb.lin is not None:
            try:
                v = self.eval_lin(sb.lin)
            except KeyError:
                return None
            return {LE: v <= 0, LT: v < 0, EQ: v == 0, NE: v != 0}[sb.op]
        return None

    def branch(self, sb):
        key = sb.key
        if key is not None:
            r = self.facts.get(key)
            if r is not None:
                self.cache_hits += 1
                return r
        if self.pos < len(self.trail):
            ent = self.trail[self.pos]
            self.pos += 1
            taken = ent[0]
            if ent[1] is None and ent[2] is not None:
                # a flipped entry carries the model for this side
                self.model = ent[2]
                ent[2] = None
            elif self.model is not None:
                ms = self._model_says(sb)
                if ms is None or ms != taken:
                    self.model = None
            self._commit(sb, taken)
            if ent[3]:
                self.free_depth += 1
            return taken
        # new decision
        self.decisions += 1
        z = sb.z
        ms = self._model_says(sb)
        if ms is None:
            if self._check(z):
                self.model = self._extract_model()
                ms = True
            else:
                ms = False
                # path condition implies not sb (path itself is feasible by construction)
                self.trail.append([False, False, None, False])
                self.pos += 1
                self._commit(sb, False)
                return False
        # model satisfies side `ms`; is the other side feasible too?
        other_z = self.znot(sb) if ms else z
        if self._check(other_z):
            if self.depth_limit is not None and self.free_depth >= self.depth_limit:
                raise PrefixReached()
            om = self._extract_model()
            self.trail.append([ms, True, om, True])
            self.free_depth += 1
        else:
            self.trail.append([ms, False, None, False])
        self.pos += 1
        self._commit(sb, ms)
        if self.pos > self.max_depth:
            self.max_depth = self.pos
        return ms

    def znot(self, sb):
        if sb.key is None:
            return z3.Not(sb.z)
        n = self._not_cache.get(sb.key)
        if n is None:
            n = z3.Not(sb.z)
            self._not_cache[sb.key] = n
        return n

    def _commit(self, sb, taken):
        self.solver.add(sb.z if taken else self.znot(sb))
        if sb.key is not None:
            self.facts[sb.key] = taken
            n = _neg_atom(sb)
            if isinstance(n, SBool):
                self.facts[n.key] = not taken

    def assume(self, cond):
        """Constrain the current path; drops the path if it becomes infeasible."""
        if builtins.type(cond) is bool:
            if not cond:
                raise PathInfeasible()
            return
        if cond.key is not None:
            r = self.facts.get(cond.key)
            if r is True:
                return
            if r is False:
                raise PathInfeasible()
        ms = self._model_says(cond)
        if ms is not True:
            if not self._check(cond.z):
                raise PathInfeasible()
            self.model = self._extract_model()
        self._commit(cond, True)

    def find(self, cond):
        """Is `cond` satisfiable together with the current path condition?
        Returns a {var: value} model or None.  Does not alter the path."""
        if builtins.type(cond) is bool:
            if not cond:
                return None
            if self.model is None:
                if not self._check():
                    raise Inconclusive("path condition infeasible?")
                self.model = self._extract_model()
            return dict(self.model) if self.model is not None else self._full_model()
        if cond.key is not None:
            r = self.facts.get(cond.key)
            if r is False:
                return None
        ms = self._model_says(cond)
        if ms is True:
            return dict(self.model)
        if self._check(cond.z):
            m = self._extract_model()
            return m if m is not None else {}
        return None

    def _full_model(self):
        if not self._check():
            return None
        return self._extract_model() or {}

    # ------------------------------------------------------------------ nondeterminism
    def choose(self, n, base="ch"):
        if n <= 0:
            raise ValueError("choose from empty range")
        if n == 1:
            return 0
        v = self.declare(base if base != "ch" else "ch", True, 0, n - 1, is_input=True)
        for k in range(n - 1):
            if v == k:
                return k
        return n - 1

    # ------------------------------------------------------------------ nonlinear helpers
    def product(self, a, b):
        self.nonlinear = True
        isint = a.isint and b.isint
        p = self.fresh(isint, "prod")
        self.add(zn(p) == zn(a) * zn(b), keep_model=False)
        p.fl = a.fl or b.fl
        return p

    def quotient(self, a, b):
        self.nonlinear = True
        q = self.fresh(False, "quot")
        if isinstance(b, SNum):
            if b == 0:
                raise ZeroDivisionError("division by zero")
        self.add(zn(q) * zn(b) == zn(a), keep_model=False)
        q.fl = True
        return q

    def round_half_even(self, x):
        r = self.fresh(True, "round")
        m = self.fresh(True, "round")
        zx, zr, zm = zn(x), z3.ToReal(zn(r)), zn(m)
        half = z3.RealVal("1/2")
        self.add(
            z3.And(
                zr - half <= zx,
                zx <= zr + half,
                z3.Implies(z3.Or(zx == zr + half, zx == zr - half), zn(r) == 2 * zm),
            ),
            keep_model=False,
        )
        return r

    def truncate(self, x):
        q = self.fresh(True, "trunc")
        zx, zq = zn(x), z3.ToReal(zn(q))
        self.add(
            z3.If(zx >= 0, z3.And(zq <= zx, zx < zq + 1), z3.And(zq - 1 < zx, zx <= zq)),
            keep_model=False,
        )
        return q

    # ------------------------------------------------------------------ tokens
    def token(self, x):
        self.tokens.append(x)
        return f"⟦{len(self.tokens) - 1}⟧"

    def untoken(self, s):
        if len(s) >= 3 and s[0] == "⟦" and s[-1] == "⟧":
            try:
                return self.tokens[builtins.int(s[1:-1])]
            except (ValueError, IndexError):
                return None
        return None

    # ------------------------------------------------------------------ bounds
    def abs_bound(self, x):
        """Interval bound on |x| from declared variable ranges, or None."""
        if not isinstance(x, SNum):
            return abs(x)
        s = abs(x.k)
        for n, v in x.c.items():
            isint, lo, hi = self.vars[n]
            if lo is None or hi is None:
                return None
            s += abs(v) * max(abs(lo), abs(hi))
        return s

    # ------------------------------------------------------------------ exploration
    def explore(self, fn, prefix=None, depth_limit=None, max_paths=None):
        """Run fn() on every feasible path. Yields (status, result, trail_bits).

        status: 'ok' | 'unsupported' | 'inconclusive' | 'prefix' | 'budget'
        """
        global ENGINE
        ENGINE = self
        self.depth_limit = depth_limit
        if prefix:
            self.trail = [[bool(b), None, None, bool(f)] for b, f in prefix]
            self.prefix_len = len(self.trail)
        else:
            self.trail = []
            self.prefix_len = 0
        while True:
            self.solver.push()
            self.pos = 0
            self._reset_path()
            status, res = "ok", None
            try:
                res = fn()
            except PathInfeasible:
                status = "infeasible"
            except PrefixReached:
                status = "prefix"
            except Unsupported as e:
                status, res = "unsupported", _describe(e)
            except Inconclusive as e:
                status, res = "inconclusive", _describe(e)
            except LoopBudget as e:
                status, res = "budget", e.args[0] if e.args else None
            bits = [(e[0], e[3]) for e in self.trail[: self.pos]]
            self.solver.pop()
            self.paths += 1
            yield status, res, bits
            if max_paths is not None and self.paths >= max_paths:
                yield "truncated", None, None
                return
            # backtrack
            del self.trail[self.pos:]
            while len(self.trail) > self.prefix_len and not self.trail[-1][1]:
                self.trail.pop()
            if len(self.trail) <= self.prefix_len:
                return
            last = self.trail[-1]
            last[0] = not last[0]
            last[1] = None  # flipped; model for this side in last[2]


def _describe(e):
    import traceback

    tb = traceback.extract_tb(e.__traceback__)
    frames = [f"{f.filename.split('/')[-1]}:{f.lineno}:{f.name}" for f in tb[-6:]]
    return f"{builtins.type(e).__name__}: {e} @ " + " <- ".join(reversed(frames))
