"""Havoc policy: a BaseScheduler whose decisions are chosen by the solver, restricted to the
per-decision contract of property C10 (existing pool, one of the task's strategies, a start
time not before the end of the invocation nor before the known release) but *not* to joint
capacity feasibility.  Used to drive the simulator through plan-ahead, retraction, skipping
and cancellation paths that the bundled planners (ILP / TetriSched / Z3) can take but that
cannot run on symbolic numbers themselves.  Budgets keep the path set finite."""
from schedulers import BaseScheduler
from utils import EventTime
from workload import BranchPredictionPolicy, Placement, Placements, TaskState

from . import harness
from .pysym import sand, sor

US = EventTime.Unit.US


class HavocScheduler(BaseScheduler):
    def __init__(self, W, cfg, runtime):
        la = cfg.get("lookahead", 0)
        if la == "sym":
            la = W.env.int("lookahead", 0, 2 ** 30)
        elif isinstance(la, (list, tuple)):  # ["sym", lo, hi]
            la = W.env.int("lookahead", la[1], la[2])
        pol = getattr(BranchPredictionPolicy, cfg.get("branch_policy", "ALL"))
        super().__init__(preemptive=False, runtime=runtime, lookahead=EventTime(la, US), enforce_deadlines=False,
                         policy=pol, retract_schedules=bool(cfg.get("retract", False)),
                         release_taskgraphs=bool(cfg.get("release_taskgraphs", False)))
        self.W = W
        self.cfg = cfg
        self.unplaced_left = {}
        self.future_left = {}
        self.cancel_left = cfg.get("max_cancels", 0)
        self.replan_left = {}
        self.invocations = 0
        self.log = []  # (time, [(task, decision)])

    def schedule(self, sim_time, workload, worker_pools):
        env = harness.CUR_ENV
        W = self.W
        cfg = self.cfg
        self.invocations += 1
        tasks = workload.get_schedulable_tasks(
            time=sim_time, lookahead=self.lookahead, preemption=False, retract_schedules=self.retract_schedules,
            worker_pools=worker_pools, policy=self.policy, branch_prediction_accuracy=self.branch_prediction_accuracy,
            release_taskgraphs=self.release_taskgraphs)
        earliest = sim_time + self.runtime
        placements = []
        decided = []
        pools = list(worker_pools.worker_pools)
        base_cfg = cfg
        for task in tasks:
            tn = task.name
            cfg = dict(base_cfg, **base_cfg.get("per_task", {}).get(tn, {}))
            if task.state not in (TaskState.VIRTUAL, TaskState.RELEASED, TaskState.SCHEDULED):
                continue
            opts = []
            was_scheduled = task.state == TaskState.SCHEDULED
            if was_scheduled:
                opts.append(("keep",))
                if self.replan_left.setdefault(tn, cfg.get("max_replans", 1)) <= 0:
                    opts = [("keep",)]
            if not was_scheduled or self.replan_left.get(tn, 0) > 0:
                if self.unplaced_left.setdefault(tn, cfg.get("max_unplaced", 1)) > 0:
                    opts.append(("unplaced",))
                if self.cancel_left > 0 and cfg.get("cancel", True):
                    opts.append(("cancel",))
                strats = list(task.available_execution_strategies)
                if cfg.get("first_strategy_only"):
                    strats = strats[:1]
                for pi, pool in enumerate(pools if not cfg.get("first_pool_only") else pools[:1]):
                    for si, st in enumerate(strats):
                        opts.append(("place", pi, si))
            k = env.choose(len(opts), f"hv_{tn}")
            d = opts[k]
            decided.append((tn, d))
            if d[0] == "keep":
                continue
            if was_scheduled:
                self.replan_left[tn] -= 1
            if d[0] == "unplaced":
                self.unplaced_left[tn] -= 1
                placements.append(Placement.create_task_placement(task=task))
            elif d[0] == "cancel":
                self.cancel_left -= 1
                placements.append(Placement.create_task_cancellation(task=task))
            else:
                pool, st = pools[d[1]], list(task.available_execution_strategies)[d[2]]
                when = earliest
                if self.future_left.setdefault(tn, cfg.get("max_future", 1)) > 0 and cfg.get("future", True):
                    if env.choose(2, f"hvf_{tn}") == 1:
                        self.future_left[tn] -= 1
                        delta = env.int(f"hvd_{tn}", 1, cfg.get("max_delta", 2 ** 30))
                        when = earliest + EventTime(delta, US)
                # contract: not before the known release of the task
                if not task.release_time.is_invalid() and task.state != TaskState.VIRTUAL:
                    pass
                elif not task.release_time.is_invalid():
                    if when < task.release_time:
                        when = task.release_time
                placements.append(Placement.create_task_placement(
                    task=task, placement_time=when, worker_pool_id=pool.id, execution_strategy=st))
        self.log.append((sim_time.time, decided))
        return Placements(runtime=self.runtime, true_runtime=EventTime.zero(), placements=placements)
