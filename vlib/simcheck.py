"""Shared pieces of the whole-run checks (C01, C02, C03, C05, C06, C07, C08)."""
from . import worlds as w

SIM_ASSUMPTIONS = [
    "worlds are small (<=3 tasks quick / <=4 thorough, <=2 workers per pool, <=2 pools); numerics (release, deadline, runtime, demand, capacity, delays) are solver variables unless a world fixes them",
    "greedy policies (EDF/FIFO/LSF) run with scheduler runtime 0 (any other value crashes the run at the first placement: known finding of C05)",
    "planners that need a numeric solver (ILP, TetriSched, Z3) are represented by the Havoc policy: every decision is a solver choice restricted to the per-decision contract of C10 (existing pool, own strategy, start not before the end of the invocation), budgets: <=1 unplaced answer, <=1 future placement, <=1 re-plan per task; delays <= 2us and runtimes <= 3us in worlds with 1-us retry loops",
    "float model: int*float by an integral factor is exact below 2^53; runtime variance 0 unless stated",
    "monitor = class-level wrappers around Worker.place_task/remove_task, Task.release/schedule/unschedule/start/finish/cancel, Simulator.__step/__handle_event; it keeps its own ledger",
    "every counterexample is replayed with plain ints on the unmodified code in a fresh process before it is reported",
]
SIM_OUTSIDE = ("preemption/migration (the migration handler dereferences a non-existent attribute), workload_update_interval, trace loaders, "
               ">4 tasks, >2 workers per pool, >2 pools, non-zero scheduler runtime with the bundled greedy policies, unbounded 1-us retry chains")

RT3 = ["sym", 1, 3]


def small(names, res=None, nstrat=1):
    """task parameter block with small symbolic runtimes (bounded retry loops)."""
    out = {}
    for t in names:
        if nstrat == 1:
            out[t] = {"strategies": [{"rt": RT3, "res": res or {"CPU": 1}}]}
        else:
            out[t] = {"strategies": [{"rt": RT3, "res": {"CPU": 2}}, {"rt": RT3, "res": {"CPU": 1}}]}
    return out
