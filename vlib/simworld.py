"""simworld -- whole-run harness: builds a small world (graphs, cluster, policy, flags) with
symbolic numerics, runs the real Simulator.simulate() under the engine and observes it with a
passive monitor (class-level wrappers installed from here; no source change).

The monitor keeps its *own* ledger of who is resident where; the per-property oracles are
evaluated from that ledger and from the observed call arguments, never from the code's own
bookkeeping.
"""
import sys

from . import harness, pysym, stubs
from .pysym import LoopBudget, SBool, SNum, sand, sany, simplies, snot, sor

stubs.install()

import simulator as simmod  # noqa: E402
from data import BaseWorkloadLoader  # noqa: E402
from schedulers import BaseScheduler, EDFScheduler, FIFOScheduler, LSFScheduler  # noqa: E402
from simulator import EventType, Simulator  # noqa: E402
from utils import EventTime  # noqa: E402
from workers import Worker, WorkerPool, WorkerPools  # noqa: E402
from workload import (BatchStrategy, ExecutionStrategies, ExecutionStrategy, Job, JobGraph, Placement, Placements,  # noqa: E402
                      Resource, Resources, Task, TaskGraph, TaskState, Workload, WorkProfile)

US = EventTime.Unit.US
NULL = stubs.NULL
T = 2 ** 30  # default upper bound of symbolic times
MON = None  # the active monitor


class StopRun(pysym.EngineSignal):
    """Raised by a probe that has seen enough of this run."""


def ET(v):
    return EventTime(v, US)


class Loader(BaseWorkloadLoader):
    def __init__(self, wl):
        self._wl = wl
        self._done = False

    def get_next_workload(self, current_time):
        if self._done:
            return None
        self._done = True
        return self._wl


# ------------------------------------------------------------------------------------ world

class World:
    pass


def val(env, spec_v, name, lo, hi):
    """A numeric world parameter: an int literal stays concrete, 'sym' becomes a solver variable,
    ['sym', lo, hi] a bounded one."""
    if spec_v == "sym":
        return env.int(name, lo, hi)
    if isinstance(spec_v, list) and spec_v and spec_v[0] == "sym":
        return env.int(name, spec_v[1], spec_v[2])
    return spec_v


def build(env, spec):
    """spec (JSON-able):
      graphs: [{name, tasks:[..], edges:[[a,b],..], cond:{task:{child:prob}}, terminal:[..],
                release: v, deadline: v}]
      tasks:  {taskname: {strategies:[{rt:v, res:{CPU:v}}], ...}}   (default one strategy rt sym, CPU 1)
      cluster: [[{CPU: v}, ...], ...]  pools -> workers -> capacities
      policy: EDF|FIFO|LSF|HAVOC, enforce_deadlines, sched_runtime, freq, delay, drop_skipped,
      run_at_worker_free, variance, timeout
    """
    W = World()
    W.spec = spec
    W.env = env
    W.tasks = {}
    W.initial_prob = {}
    W.resolved_at_submission = {}
    W.task_params = {}
    W.graph_of = {}
    rt_lo = spec.get("rt_lo", 1)
    tgs = {}
    # shared work profiles ("models") with batch strategies, for the Clockwork worlds
    W.models = {}
    for mname, ms in spec.get("models", {}).items():
        strats, sparams = [], []
        for si, s in enumerate(ms["strategies"]):
            rt = val(env, s.get("rt", "sym"), f"rt_{mname}_{si}", rt_lo, T)
            res = {rn: val(env, q, f"dem_{mname}_{si}_{rn}", 0, 2 ** 20) for rn, q in s.get("res", {"GPU": 1}).items()}
            strats.append(ExecutionStrategy(resources=Resources({Resource(name=rn, _id="any"): q for rn, q in res.items()}, _logger=NULL),
                                            batch_size=s.get("batch", 1), runtime=ET(rt)))
            sparams.append({"rt": rt, "res": res, "batch": s.get("batch", 1)})
        lres = {rn: val(env, q, f"load_{mname}_{rn}", 0, 2 ** 20) for rn, q in ms.get("load_res", {"RAM": 1}).items()}
        load = ExecutionStrategy(resources=Resources({Resource(name=rn, _id="any"): q for rn, q in lres.items()}, _logger=NULL), batch_size=1, runtime=ET(0))
        prof = WorkProfile(name=mname, execution_strategies=ExecutionStrategies(strats), loading_strategies=ExecutionStrategies([load]))
        W.models[mname] = {"profile": prof, "strategies": sparams, "strat_objs": strats, "load": load, "load_res": lres}
    for g in spec["graphs"]:
        gname = g["name"]
        rel = val(env, g.get("release", 0), f"rel_{gname}", 0, T)
        dl = val(env, g.get("deadline", "sym"), f"dl_{gname}", 0, 4 * T)
        jobs = {}
        cond = g.get("cond", {})
        probs = {}
        for c, ch in cond.items():
            probs.update(ch)
        tmap = {}
        parents = {t: [] for t in g["tasks"]}
        for a, b in g["edges"]:
            parents[b].append(a)
        for tname in g["tasks"]:
            tp = spec.get("tasks", {}).get(tname, {})
            strats = []
            sparams = []
            shared = W.models.get(tp.get("model")) if tp.get("model") else None
            for si, s in enumerate([] if shared else tp.get("strategies", [{"rt": "sym"}])):
                rt = val(env, s.get("rt", "sym"), f"rt_{tname}_{si}", rt_lo, s.get("rt_hi", T))
                res = {}
                for rn, q in s.get("res", {"CPU": 1}).items():
                    res[rn] = val(env, q, f"dem_{tname}_{si}_{rn}", 0, 2 ** 20)
                strats.append(ExecutionStrategy(
                    resources=Resources({Resource(name=rn.split("#")[0], _id=rn.split("#")[1] if "#" in rn else "any"): q for rn, q in res.items()}, _logger=NULL),
                    batch_size=1, runtime=ET(rt)))
                sparams.append({"rt": rt, "res": res})
            if shared:
                prof, strats, sparams = shared["profile"], shared["strat_objs"], shared["strategies"]
            else:
                prof = WorkProfile(name=tname + "_p", execution_strategies=ExecutionStrategies(strats))
            job = Job(name=tname, profile=prof, conditional=tname in cond, terminal=tname in g.get("terminal", []),
                      probability=probs.get(tname, 1.0))
            jobs[tname] = job
            is_src = not parents[tname]
            trel = rel if is_src else -1
            if tp.get("release") is not None and not is_src:
                trel = val(env, tp["release"], f"rel_{tname}", 0, T)
            tdl = dl if tp.get("deadline") is None else val(env, tp["deadline"], f"dl_{tname}", 0, 4 * T)
            # `operator` / `timestamp`: successive invocations of one operator share the Task name (TaskLoader-style graphs)
            t = Task(name=tp.get("operator", tname), task_graph=gname, job=job, deadline=ET(tdl), timestamp=tp.get("timestamp", 0),
                     release_time=(EventTime(trel, EventTime.Unit.MS) if (g.get("release_unit") == "MS" and is_src) else ET(trel)), _logger=NULL)
            tmap[tname] = t
            W.tasks[tname] = t
            W.graph_of[tname] = gname
            W.task_params[tname] = {"strategies": sparams, "strat_objs": strats, "release": (trel * 1000 if (g.get("release_unit") == "MS" and is_src) else trel), "deadline": tdl,
                                    "parents": parents[tname], "children": [b for a, b in g["edges"] if a == tname],
                                    "conditional": tname in cond, "terminal": tname in g.get("terminal", []),
                                    "prob": probs.get(tname, 1.0), "source": is_src, "model": tp.get("model")}
        children = {t: [b for a, b in g["edges"] if a == t] for t in g["tasks"]}
        if g.get("via_jobgraph"):
            # instantiate through the real JobGraph._generate_task_graph (resolution of conditionals at submission)
            import types

            fl = types.SimpleNamespace(min_deadline_variance=0, max_deadline_variance=0, min_deadline=0, max_deadline=sys.maxsize,
                                       use_branch_predicated_deadlines=False, resolve_conditionals_at_submission=True,
                                       decompose_deadlines=False, log_dir=None, log_file_name=None, log_level="debug")
            fl.__dict__.update(g.get("flags", {}))
            jg = JobGraph(name="J" + gname, jobs={jobs[t]: [jobs[c] for c in children[t]] for t in g["tasks"]})
            tg = jg._generate_task_graph(release_time=ET(rel), task_graph_name=gname, timestamp=0, _flags=fl)
            for t in tg.get_nodes():
                W.tasks[t.name] = t
                W.initial_prob[t.name] = t.probability
                W.task_params[t.name]["deadline"] = t.deadline.time
            for cname in cond:
                best = [c for c in cond[cname] if W.initial_prob[c] >= 1.0 - 1e-9]
                if fl.resolve_conditionals_at_submission:
                    W.resolved_at_submission[cname] = best[0] if len(best) == 1 else None
            tgs[gname] = tg
            continue
        jg = JobGraph(name="J" + gname)
        tgs[gname] = TaskGraph(name=gname, tasks={tmap[t]: [tmap[c] for c in children[t]] for t in g["tasks"]}, job_graph=jg)
    W.task_graphs = tgs
    W.workload = Workload.from_task_graphs(tgs)
    # cluster
    pools = []
    W.workers = []  # (pool index, worker, caps)
    for pi, pw in enumerate(spec["cluster"]):
        ws = []
        for wi, caps in enumerate(pw):
            if isinstance(caps, dict):
                entries = [(rn, val(env, q, f"cap_{pi}_{wi}_{rn}", 0, 2 ** 20)) for rn, q in caps.items()]
            else:  # list of [name, quantity] or [name, quantity, instance id]: several instances of one resource type, in this order
                entries = [(e[0], val(env, e[1], f"cap_{pi}_{wi}_{e[0]}{ei}", 0, 2 ** 20)) + tuple(e[2:3]) for ei, e in enumerate(caps)]
            cv = {}
            for e in entries:
                cv[e[0]] = cv.get(e[0], 0) + e[1]
                if len(e) > 2:  # a named instance: pinned requests are checked against it
                    cv[f"{e[0]}#{e[2]}"] = e[1]
            wk = Worker(name=f"W{pi}_{wi}", resources=Resources({(Resource(name=e[0], _id=e[2]) if len(e) > 2 else Resource(name=e[0])): e[1] for e in entries}, _logger=NULL), _logger=NULL)
            ws.append(wk)
            W.workers.append((pi, wk, cv))
        pools.append(WorkerPool(name=f"P{pi}", workers=ws, _logger=NULL))
    W.pools = pools
    W.worker_pools = WorkerPools(pools)
    W.preloaded = {id(wk): set() for (_, wk, _) in W.workers}
    W.profile_held = {id(wk): {} for (_, wk, _) in W.workers}
    for key, mnames in spec.get("preload", {}).items():
        pi, wi = map(int, key.split(":"))
        wk = [w_ for (p_, w_, _) in W.workers if p_ == pi][wi]
        for mname in mnames:
            m = W.models[mname]
            wk.load_profile(m["profile"], m["load"])
            wk.step(ET(0), ET(0))  # a zero-length load completes at once: the model is available
            W.preloaded[id(wk)].add(mname)
            for rn, q in m["load_res"].items():
                W.profile_held[id(wk)][rn] = W.profile_held[id(wk)].get(rn, 0) + q
    # models that are still being loaded when the run starts: usable on that worker from time L on
    W.loading_until = {}
    for key, ms in spec.get("loading", {}).items():
        pi, wi = map(int, key.split(":"))
        wk = [w_ for (p_, w_, _) in W.workers if p_ == pi][wi]
        for mname, L in ms.items():
            m = W.models[mname]
            slow_load = ExecutionStrategy(resources=m["load"].resources, batch_size=1, runtime=ET(L))
            wk.load_profile(m["profile"], slow_load)
            W.loading_until[(id(wk), mname)] = L
            for rn, q in m["load_res"].items():
                W.profile_held[id(wk)][rn] = W.profile_held[id(wk)].get(rn, 0) + q
    # policy
    pol = spec.get("policy", "EDF")
    srt = val(env, spec.get("sched_runtime", 0), "sched_rt", 0, T)
    W.sched_runtime = srt
    enf = spec.get("enforce_deadlines", False)
    if pol == "EDF":
        sch = EDFScheduler(runtime=ET(srt), enforce_deadlines=enf, preemptive=spec.get("preemptive", False))
    elif pol == "FIFO":
        sch = FIFOScheduler(runtime=ET(srt), enforce_deadlines=enf)
    elif pol == "LSF":
        sch = LSFScheduler(runtime=ET(srt))
    elif pol == "CLOCKWORK":
        from schedulers import ClockworkScheduler

        fl = None
        if spec.get("run_load"):
            import types

            fl = types.SimpleNamespace(scheduler_run_load=True, log_dir=None, log_file_name=None, log_level="debug")
        sch = ClockworkScheduler(runtime=ET(srt), goal=spec.get("goal", "clockwork"), _flags=fl)
    elif pol == "HAVOC":
        from .havoc import HavocScheduler

        sch = HavocScheduler(W, spec.get("havoc", {}), runtime=ET(srt))
    else:
        raise ValueError(pol)
    if pol not in ("HAVOC",):
        # BaseScheduler's default prediction policy is RANDOM: every frontier query then draws from the global
        # generator for each unresolved conditional (a fork per draw). Worlds use ALL unless they ask otherwise.
        from workload import BranchPredictionPolicy

        sch._policy = getattr(BranchPredictionPolicy, spec.get("branch_policy", "ALL"))
    W.scheduler = sch
    freq = val(env, spec.get("freq", -1), "freq", 0, T)
    timeout = val(env, spec.get("timeout", 2 ** 50), "timeout", 0, 4 * T)
    W.timeout = timeout
    sim = Simulator(worker_pools=W.worker_pools, scheduler=sch, workload_loader=Loader(W.workload),
                    loop_timeout=ET(timeout), scheduler_frequency=ET(freq))
    delay = val(env, spec.get("delay", 0), "delay", 0, T)
    sim._scheduler_delay = ET(delay)
    sim._drop_skipped_tasks = bool(spec.get("drop_skipped", False))
    sim._run_scheduler_at_worker_free = bool(spec.get("run_at_worker_free", False))
    sim._runtime_variance = spec.get("variance", 0)
    W.sim = sim
    W.csv = stubs.CSV
    return W


# ------------------------------------------------------------------------------------ monitor

_S = TaskState
ALLOWED = {(m, o.name, n.name) for (m, o, n) in [
    ("release", _S.VIRTUAL, _S.RELEASED), ("release", _S.SCHEDULED, _S.SCHEDULED),
    ("schedule", _S.VIRTUAL, _S.SCHEDULED), ("schedule", _S.RELEASED, _S.SCHEDULED),
    ("schedule", _S.SCHEDULED, _S.SCHEDULED),
    ("unschedule", _S.SCHEDULED, _S.RELEASED), ("unschedule", _S.SCHEDULED, _S.VIRTUAL),
    ("start", _S.SCHEDULED, _S.RUNNING), ("finish", _S.RUNNING, _S.COMPLETED),
    ("cancel", _S.VIRTUAL, _S.CANCELLED), ("cancel", _S.RELEASED, _S.CANCELLED),
    ("cancel", _S.SCHEDULED, _S.CANCELLED),
]}


class Monitor:
    def __init__(self, W, oracles, budget):
        self.W = W
        self.env = W.env
        self.on = set(oracles)
        self.budget = budget
        self.live = {id(wk): (pi, wk, caps) for (pi, wk, caps) in W.workers}
        self.live_tasks = {id(t): n for n, t in W.tasks.items()}
        self.ledger = {id(wk): {} for (_, wk, _) in W.workers}  # worker -> {taskname: strategy}
        self.steps = 0
        self.zero_steps = 0
        self.events = []  # (time, type, taskname)
        self.trans = {n: [] for n in W.tasks}  # (method, old, new, time)
        self.starts = {n: [] for n in W.tasks}
        self.finishes = {n: [] for n in W.tasks}
        self.removals = {n: [] for n in W.tasks}
        self.chosen = {}  # taskname -> (placement_time, strategy, pool id) of the decision currently applied
        self.start_strategy = {}
        self.cancel_calls = {n: [] for n in W.tasks}
        self.release_calls = {n: [] for n in W.tasks}
        self.ended = False
        self.end_time = None
        self.last_event_time = 0
        self.sched_invocations = []
        self.cw_placed, self.cw_cancelled = set(), set()
        self.sched_returns = []
        self.sched_offers = []
        self.now = 0

    # ---- helpers
    def req(self, prop, label, cond, info=None):
        if prop in self.on:
            self.env.require(f"{prop}:{label}", cond, info)

    def tname(self, task):
        return self.live_tasks.get(id(task))

    def demand(self, tn, st, rn):
        """Demand of strategy `st` of task `tn` for resource name rn, from the world's own parameters."""
        tp = self.W.task_params[tn]
        for so, sp in zip(tp["strat_objs"], tp["strategies"]):
            if so is st:
                if "#" in rn:  # a named instance: what is pinned to it
                    return sp["res"].get(rn, 0)
                d = 0
                for k, q in sp["res"].items():
                    if k.split("#")[0] == rn:
                        d = d + q
                return d
        return st.resources.get_total_quantity(Resource(name=rn, _id="any"))

    def used(self, wid, rn):
        s = self.W.profile_held.get(wid, {}).get(rn, 0)
        seen_batches = set()
        for tn, st in self.ledger[wid].items():
            if isinstance(st, BatchStrategy):
                if id(st) in seen_batches:
                    continue  # a batch holds its resources once
                seen_batches.add(id(st))
            s = s + self.demand(tn, st, rn)
        return s

    def fits(self, wid, strategy, at=None):
        """Does `strategy` fit on the worker according to the monitor's ledger?  With `at`, residents whose
        execution is over by that instant (start + runtime <= at) no longer count, even if their
        TASK_FINISHED event has not been handled yet (resource-freeing events come first at equal times)."""
        pi, wk, caps = self.live[wid]
        conds = []
        for r, q in strategy.resources.resources:
            if at is None:
                u = self.used(wid, r.name)
            else:
                u = self.W.profile_held.get(wid, {}).get(r.name, 0)
                seen_b = set()
                for tn, st in self.ledger[wid].items():
                    if isinstance(st, BatchStrategy):
                        if id(st) in seen_b:
                            continue
                        seen_b.add(id(st))
                    d = self.demand(tn, st, r.name)
                    if self.starts[tn]:
                        over = self.starts[tn][-1] + st.runtime.time <= at
                        d = pysym.site(over, 0, d)
                    u = u + d
            conds.append(caps.get(r.name, 0) - u >= q)
        return sand(*conds)

    # ---- hooks
    def check_capacity(self, tag):
        if "C01" not in self.on:
            return
        demanded = getattr(self, "_demanded_names", None)
        if demanded is None:
            demanded = self._demanded_names = sorted({k.split("#")[0] for tp in self.W.task_params.values() for sp in tp["strategies"] for k in sp["res"]})
        for wid, (pi, wk, caps) in self.live.items():
            for rn in demanded:  # a resource type some task needs and this worker does not own at all: capacity 0
                if rn not in caps:
                    self.req("C01", "within-capacity", self.used(wid, rn) <= 0, tag)
            for rn, cap in caps.items():
                self.req("C01", "within-capacity", self.used(wid, rn) <= cap, tag)
                if "#" in rn:
                    continue
                r = Resource(name=rn, _id="any")
                self.req("C01", "ledger-nonnegative", sand(wk.resources.get_available_quantity(r) >= 0,
                                                          wk.resources.get_allocated_quantity(r) >= 0), tag)
        names = [tn for led in self.ledger.values() for tn in led]
        self.req("C01", "one-worker-per-task", len(names) == len(set(names)), tag)

    def check_idle_full(self, tag):
        if "C04" not in self.on:
            return
        for wid, (pi, wk, caps) in self.live.items():
            if not self.ledger[wid]:
                for rn, cap in caps.items():
                    r = Resource(name=rn, _id="any")
                    self.req("C04", "idle-worker-at-full-capacity", sand(wk.resources.get_available_quantity(r) == cap,
                                                                      wk.resources.get_allocated_quantity(r) == 0), tag)

    def on_step(self, sim, step_size):
        self.steps += 1
        if self.steps > self.budget:
            raise LoopBudget(("steps", self.steps))
        before = sim._simulator_time
        self.req("C03", "clock-monotone", step_size >= EventTime.zero())
        self.check_capacity("step")
        self.check_idle_full("step")
        return before

    def after_step(self, sim, before, step_size):
        self.req("C03", "clock-advances-by-step", sim._simulator_time == before + step_size)
        self.now = sim._simulator_time.time

    def on_event(self, sim, event):
        t = event.time
        self.req("C03", "event-at-clock", t == sim._simulator_time, str(event.event_type))
        t_us = t.to(US).time  # event times may be written in another unit
        self.req("C03", "events-in-time-order", t_us >= self.last_event_time, str(event.event_type))
        self.last_event_time = t_us
        self.events.append((t_us, event.event_type, self.tname(event.task) if event.task is not None else None))
        if event.event_type == EventType.SIMULATOR_END:
            self.ended = True
            self.end_time = t_us
        if event.event_type == EventType.SCHEDULER_START:
            self.sched_invocations.append(t_us)
            if "C18" in self.on:
                self.frontier_oracle(sim, t)
            if "C08" in self.on:
                self.sched_offers.append({"time": t.time, "offered": len(self.offer(sim, t)), "resident": sum(len(l) for l in self.ledger.values())})

    def offer(self, sim, t, lookahead=None, rtg=None, retract=None):
        sch = sim._scheduler
        return sim._workload.get_schedulable_tasks(
            t, sch.lookahead if lookahead is None else lookahead, sch.preemptive,
            sch.retract_schedules if retract is None else retract, sim._worker_pools, sch.policy,
            sch.branch_prediction_accuracy, sch.release_taskgraphs if rtg is None else rtg)

    def frontier_oracle(self, sim, t):
        """C18: what the policy is offered at this invocation."""
        W = self.W
        sch = sim._scheduler
        offered = self.offer(sim, t)
        names = [self.tname(x) for x in offered]
        self.req("C18", "offered-once", len(names) == len(set(names)), str(names))
        plan_ahead = not (sch.lookahead == EventTime.zero()) or sch.release_taskgraphs
        for tn, task in W.tasks.items():
            st = task.state
            isin = tn in names
            if st == TaskState.RELEASED:
                # a released task whose release time has arrived must be offered (no starvation)
                self.req("C18", "released-task-offered", sor(isin, snot(task.release_time <= t)), tn)
            if st in (TaskState.COMPLETED, TaskState.CANCELLED):
                self.req("C18", "finished-task-not-offered", not isin, f"{tn} {st.name}")
            if st == TaskState.SCHEDULED:
                self.req("C18", "scheduled-offered-only-with-retraction", (not isin) or sch.retract_schedules, tn)
            if st == TaskState.RUNNING:
                self.req("C18", "running-offered-only-with-preemption", (not isin) or sch.preemptive, tn)
            if isin and not plan_ahead:
                tg = W.task_graphs[W.graph_of[tn]]
                ps = tg.get_parents(task)
                if ps:
                    done = [p.state == TaskState.COMPLETED for p in ps]
                    ok = any(done) if task.terminal else all(done)
                    self.req("C18", "no-plan-ahead-no-unfinished-predecessors", ok, f"{tn} offered in state {st.name}")
        k = W.spec.get("c18_probe_at")
        if k is not None and len(self.sched_invocations) == k:
            env = self.env
            l1 = env.int("probe_la1", 0, 2 ** 30)
            l2 = env.int("probe_la2", 0, 2 ** 30)
            env.assume(l1 <= l2)
            for rtg in (False, True):
                for retract in (False, True):
                    o1 = [self.tname(x) for x in self.offer(sim, t, EventTime(l1, US), rtg, retract)]
                    o2 = [self.tname(x) for x in self.offer(sim, t, EventTime(l2, US), rtg, retract)]
                    self.req("C18", "offer-monotone-in-lookahead", all(x in o2 for x in o1), f"rtg={rtg} retract={retract} {o1} !<= {o2}")
                o_f = [self.tname(x) for x in self.offer(sim, t, EventTime(l1, US), False, False)]
                o_t = [self.tname(x) for x in self.offer(sim, t, EventTime(l1, US), True, False)]
            self.req("C18", "offer-monotone-in-release_taskgraphs", all(x in o_t for x in o_f), f"{o_f} !<= {o_t}")
            raise StopRun()

    def clockwork_oracle(self, sim_time, placements):
        """C15: what one Clockwork invocation returned, judged against the monitor's ledger."""
        W = self.W
        now = sim_time.time
        groups = {}
        extra = {}  # worker -> {resource: demand already planned in this invocation}
        for pl in placements:
            if pl.placement_type == Placement.PlacementType.CANCEL_TASK:
                tn = self.tname(pl.task)
                self.cw_cancelled.add(tn)
                fast = pl.task.available_execution_strategies.get_fastest_strategy().runtime
                self.req("C15", "cancel-only-if-hopeless", pl.task.deadline < sim_time + fast, tn)
                continue
            if pl.placement_type != Placement.PlacementType.PLACE_TASK or not pl.is_placed():
                continue
            groups.setdefault(id(pl.execution_strategy), []).append(pl)
        for gid, pls in groups.items():
            st = pls[0].execution_strategy
            names = [self.tname(p.task) for p in pls]
            self.req("C15", "batch-strategy-is-a-batch", isinstance(st, BatchStrategy), str(names))
            self.req("C15", "one-model-per-batch", len({id(p.task.profile) for p in pls}) == 1, str(names))
            self.req("C15", "batch-is-full", len(pls) == st.batch_size and len(set(names)) == len(names), f"{names} batch_size={st.batch_size}")
            self.req("C15", "batch-on-one-worker", len({(p.worker_pool_id, p.worker_id) for p in pls}) == 1, str(names))
            self.req("C15", "placed-now", sand(*[p.placement_time == sim_time for p in pls]), str(names))
            mname = W.task_params[names[0]]["model"]
            wk = [w_ for (pi, w_, caps) in W.workers if w_.id == pls[0].worker_id]
            self.req("C15", "worker-exists", len(wk) == 1, str(names))
            if len(wk) == 1:
                wid = id(wk[0])
                if (wid, mname) in W.loading_until:
                    self.req("C15", "model-loaded-on-worker", sim_time.time >= W.loading_until[(wid, mname)], f"{names}: model {mname} still loading on {wk[0].name} until {W.loading_until[(wid, mname)]}")
                else:
                    self.req("C15", "model-loaded-on-worker", mname in W.preloaded[wid], f"{names}: model {mname} on {wk[0].name}")
                pi, _, caps = self.live[wid]
                for r, q in st.resources.resources:
                    already = extra.setdefault(wid, {}).get(r.name, 0)
                    self.req("C15", "worker-can-hold-batch", caps.get(r.name, 0) - self.used(wid, r.name) - already >= q, f"{names} on {wk[0].name}")
                    extra[wid][r.name] = already + q
            for p in pls:
                self.req("C15", "batch-meets-earliest-deadline", sim_time + st.runtime <= p.task.deadline, self.tname(p.task))
                fast = p.task.available_execution_strategies.get_fastest_strategy().runtime
                self.req("C15", "hopeless-request-not-placed", snot(p.task.deadline < sim_time + fast), self.tname(p.task))
            for tn in names:
                self.req("C15", "request-placed-at-most-once", tn not in self.cw_placed and tn not in self.cw_cancelled, tn)
                self.cw_placed.add(tn)

    def notify_oracle(self, tg, task, released, cancelled):
        """C18: on completion exactly the children whose every parent is complete are released
        (conditional: the one chosen child; join: after its first completed parent)."""
        tn = self.tname(task)
        if tn is None or "C18" not in self.on:
            return
        W = self.W
        tp = W.task_params[tn]
        got = sorted(self.tname(x) for x in released)
        if tp["conditional"]:
            kids = tp["children"]
            live = [k for k in kids if W.tasks[k].probability > 0 or k in got]
            self.req("C18", "completion-releases-one-chosen-child", len(got) <= 1 and all(g in kids for g in got) and (len(got) == 1 or not live), f"{tn}: {got}")
            return
        exp = []
        for c in tp["children"]:
            ct = W.tasks[c]
            if ct.state == TaskState.CANCELLED:
                continue
            ps = W.task_params[c]["parents"]
            if W.task_params[c]["terminal"] or all(W.tasks[p].state == TaskState.COMPLETED for p in ps):
                exp.append(c)
        self.req("C18", "completion-releases-exactly-ready-children", got == sorted(exp), f"{tn}: released {got}, expected {sorted(exp)}")

    def after_event(self, sim, event):
        if event.event_type == EventType.TASK_PLACEMENT:
            tn = self.tname(event.task)
            task = event.task
            if tn is not None and "C03" in self.on:
                started = bool(self.starts[tn]) and task.state == TaskState.RUNNING
                if not started and task.state == TaskState.SCHEDULED:
                    # deferred: justified only if a predecessor is unfinished or the chosen pool cannot hold it
                    tg = self.W.task_graphs[self.W.graph_of[tn]]
                    ps = tg.get_parents(task)
                    pdone = [p.state == TaskState.COMPLETED for p in ps]
                    parents_ok = (any(pdone) if task.terminal else all(pdone)) if ps else True
                    if parents_ok:
                        pool_id = event.placement.worker_pool_id
                        st = event.placement.execution_strategy
                        cands = [wid for wid, (pi, wk, caps) in self.live.items() if self.W.pools[pi].id == pool_id
                                 and (event.placement.worker_id is None or wk.id == event.placement.worker_id)]
                        canfit = sor(*[self.fits(wid, st, at=event.time.time) for wid in cands]) if st is not None else False
                        self.req("C03", "starts-at-chosen-time-when-possible", snot(canfit), f"{tn} deferred at its chosen time")
        self.check_capacity("event:" + str(event.event_type))

    def worker_place(self, wk, task, strategy):
        tn = self.tname(task)
        if tn is None:
            return
        self.ledger[id(wk)][tn] = strategy
        self.check_capacity(f"place {tn}")

    def worker_remove(self, wk, current_time, task):
        tn = self.tname(task)
        if tn is None:
            return
        self.ledger[id(wk)].pop(tn, None)
        self.removals[tn].append(current_time.time)

    def transition(self, method, task, old, new, time):
        tn = self.tname(task)
        if tn is None:
            return
        self.trans[tn].append((method, old, new, time))
        self.req("C06", "legal-transition", (method, old.name, new.name) in ALLOWED, f"{tn}: {method} {old}->{new}")
        if method == "unschedule":
            prev = [x for x in self.trans[tn][:-1] if x[0] in ("release",) and x[2] == TaskState.RELEASED]
            self.req("C06", "unschedule-returns-to-prior-state", new == (TaskState.RELEASED if prev else TaskState.VIRTUAL), tn)

    def task_start(self, task, time):
        tn = self.tname(task)
        if tn is None:
            return
        W = self.W
        self.starts[tn].append(time.time)
        self.start_strategy[tn] = task.current_placement.execution_strategy if task.current_placement else None
        self.req("C02", "start-once", len(self.starts[tn]) == 1, tn)
        self.req("C02", "start-after-release", time >= task.release_time, tn)
        rel0 = W.task_params[tn]["release"]
        if not (isinstance(rel0, int) and rel0 == -1):
            # the release time the workload declared for this task (Task.release() overwrites the attribute)
            self.req("C02", "start-after-declared-release", time.time >= rel0, tn)
        rc = self.release_calls[tn]
        self.req("C02", "released-before-start", len(rc) >= 1, tn)
        tg = W.task_graphs[W.graph_of[tn]]
        ps = tg.get_parents(task)
        if ps:
            done = [sand(p.state == TaskState.COMPLETED, p.completion_time <= time) if p.state == TaskState.COMPLETED else False for p in ps]
            if task.terminal:
                self.req("C02", "start-after-predecessors", sor(*done), tn)
                # the join of a conditional runs after the branch that was taken: a cancelled (untaken) branch does not release it
                self.req("C07", "join-starts-after-the-taken-branch", sor(*done), f"{tn}: parents {[(p.name, p.state.name) for p in ps]}")
            else:
                self.req("C02", "start-after-predecessors", sand(*done), tn)
        ch = self.chosen.get(tn)
        if ch is not None:
            self.req("C03", "start-not-before-chosen-time", time >= ch[0], tn)

    def task_finish(self, task):
        tn = self.tname(task)
        if tn is None:
            return
        self.finishes[tn].append(task.completion_time.time)
        self.req("C02", "finish-once", len(self.finishes[tn]) == 1, tn)
        st = self.start_strategy.get(tn)
        if st is not None and self.starts[tn]:
            s = self.starts[tn][-1]
            v = self.W.spec.get("variance", 0)
            if v == 0:
                self.req("C03", "completion-is-start-plus-runtime", task.completion_time.time == s + st.runtime.time, tn)
            if self.removals[tn]:
                self.req("C03", "resources-released-at-completion", self.removals[tn][-1] == task.completion_time.time, tn)
            else:
                self.req("C03", "resources-released-at-completion", False, tn + " finished without being removed")

    def task_schedule(self, task, time, placement):
        tn = self.tname(task)
        if tn is None:
            return
        self.chosen[tn] = (placement.placement_time, placement.execution_strategy, placement.worker_pool_id)


def _wrap_all():
    """Class-level wrappers; they delegate to MON and are no-ops when no monitor is active."""
    if getattr(Simulator, "_verif_wrapped", False):
        return
    Simulator._verif_wrapped = True
    o_step = Simulator._Simulator__step
    o_handle = Simulator._Simulator__handle_event

    def step(self, step_size=EventTime(1, US)):
        m = MON
        if m is None:
            return o_step(self, step_size)
        before = m.on_step(self, step_size)
        r = o_step(self, step_size)
        m.after_step(self, before, step_size)
        return r

    def handle(self, event):
        m = MON
        if m is None:
            return o_handle(self, event)
        m.on_event(self, event)
        r = o_handle(self, event)
        m.after_event(self, event)
        return r

    Simulator._Simulator__step = step
    Simulator._Simulator__handle_event = handle

    o_place, o_remove = Worker.place_task, Worker.remove_task

    def place(self, task, execution_strategy):
        r = o_place(self, task, execution_strategy)
        m = MON
        if m is not None and id(self) in m.live:
            m.worker_place(self, task, execution_strategy)
        return r

    def remove(self, current_time, task):
        r = o_remove(self, current_time, task)
        m = MON
        if m is not None and id(self) in m.live:
            m.worker_remove(self, current_time, task)
        return r

    Worker.place_task = place
    Worker.remove_task = remove

    def wrap_state(name, time_of):
        orig = getattr(Task, name)

        def w(self, *a, **k):
            m = MON
            old = self._state
            try:
                r = orig(self, *a, **k)
            except Exception:
                if m is not None and name == "start":
                    # the repository's own tripwire fired (e.g. start before release): the attempted start is what C02 judges
                    m.task_start(self, a[0] if a else k.get("time"))
                raise
            if m is not None:
                m.transition(name, self, old, self._state, time_of(self, a, k))
                if name == "start":
                    m.task_start(self, self._start_time)
                elif name == "finish":
                    m.task_finish(self)
                elif name == "schedule":
                    m.task_schedule(self, a[0] if a else k.get("time"), a[1] if len(a) > 1 else k.get("placement"))
                elif name == "cancel":
                    tn = m.tname(self)
                    if tn is not None:
                        m.cancel_calls[tn].append((a[0] if a else k.get("time")).time)
                elif name == "release":
                    tn = m.tname(self)
                    if tn is not None:
                        m.release_calls[tn].append(m.now)
            return r

        setattr(Task, name, w)

    for nm in ("release", "schedule", "unschedule", "start", "finish", "cancel"):
        wrap_state(nm, lambda self, a, k: None)

    o_notify = TaskGraph.notify_task_completion

    def notify(self, task, finish_time):
        r = o_notify(self, task, finish_time)
        m = MON
        if m is not None:
            m.notify_oracle(self, task, r[0], r[1])
        return r

    TaskGraph.notify_task_completion = notify


_wrap_all()


# ------------------------------------------------------------------------------------ run

def default_budget(spec):
    nt = sum(len(g["tasks"]) for g in spec["graphs"])
    b = 40 * (nt + 2)
    if spec.get("policy") == "HAVOC" or spec.get("retry_loops"):
        # 1-microsecond retry loops (TASK_NOT_READY / WORKER_NOT_READY) are bounded by the total amount of
        # work plus the planned delays; these worlds bound runtimes and delays by small constants
        hv = spec.get("havoc", {})
        horizon = 0
        for g in spec["graphs"]:
            for t in g["tasks"]:
                ss = spec.get("tasks", {}).get(t, {}).get("strategies", [{"rt": ["sym", 1, 4]}])
                horizon += max((s["rt"][2] if isinstance(s.get("rt"), list) else (s.get("rt") if isinstance(s.get("rt"), int) else 4)) for s in ss)
            horizon += len(g["tasks"]) * hv.get("max_delta", 2) * (1 + hv.get("max_replans", 1))
        b += 14 * horizon
    return spec.get("budget", b)


def run(env, spec, oracles, after=None):
    """Build the world, run simulate() under the monitor, evaluate end-of-run oracles."""
    global MON
    stubs.CSV.rows.clear()
    W = build(env, spec)
    if spec.get("assume"):
        apply_assumptions(env, W, spec["assume"])
    mon = Monitor(W, oracles, default_budget(spec))
    W.mon = mon
    MON = mon
    if "C08" in mon.on:
        orig_schedule8 = W.scheduler.schedule

        def schedule8(sim_time, workload, worker_pools):
            pls = orig_schedule8(sim_time, workload, worker_pools)
            lst = list(pls)
            placed = sum(1 for p in lst if p.placement_type == Placement.PlacementType.PLACE_TASK and p.is_placed())
            unplaced = sum(1 for p in lst if p.placement_type == Placement.PlacementType.PLACE_TASK and not p.is_placed())
            mon.sched_returns.append({"time": sim_time.time, "placed": placed, "unplaced": unplaced, "runtime": pls.runtime.time})
            return pls

        W.scheduler.schedule = schedule8
    if "C15" in mon.on:
        orig_schedule = W.scheduler.schedule

        def schedule(sim_time, workload, worker_pools):
            pls = orig_schedule(sim_time, workload, worker_pools)
            mon.clockwork_oracle(sim_time, list(pls))
            return pls

        W.scheduler.schedule = schedule
    nonterm = None
    stopped = False
    try:
        try:
            W.sim.simulate()
        except LoopBudget as e:
            nonterm = e.args[0]
        except StopRun:
            stopped = True
    finally:
        MON = None
    W.nonterminated = nonterm
    if nonterm is not None:
        if "C05" in mon.on:
            env.require("C05:terminates", False, f"budget of {mon.budget} loop iterations exceeded at clock {W.sim._simulator_time.time}")
        else:
            raise LoopBudget(nonterm)
    elif not stopped:
        end_oracles(W, mon)
    if after is not None:
        after(W, mon)
    for tn, t in W.tasks.items():
        env.observe("state_" + tn, t.state.name)
        env.observe("start_" + tn, t.start_time.time)
        env.observe("done_" + tn, t.completion_time.time)
    env.observe("end", mon.end_time)
    harness.finish_path(env)
    return W


def apply_assumptions(env, W, names):
    for a in names:
        if a == "fits-somewhere":
            # every strategy... at least: each task has a strategy that fits on some empty worker
            for tn, tp in W.task_params.items():
                opts = []
                for sp in tp["strategies"]:
                    for (pi, wk, caps) in W.workers:
                        opts.append(sand(*[caps.get(rn, 0) >= q for rn, q in sp["res"].items()]))
                env.assume(sor(*opts))
        elif a == "all-strategies-fit":
            for tn, tp in W.task_params.items():
                for sp in tp["strategies"]:
                    env.assume(sor(*[sand(*[caps.get(rn, 0) >= q for rn, q in sp["res"].items()]) for (pi, wk, caps) in W.workers]))
        elif a == "deadline-after-release":
            for tn, tp in W.task_params.items():
                if tp["source"]:
                    env.assume(tp["deadline"] >= tp["release"])
        else:
            raise ValueError(a)


def end_oracles(W, mon):
    env = W.env
    spec = W.spec
    sim = W.sim
    # ---- C05
    if "C05" in mon.on:
        mon.req("C05", "reaches-end-event", mon.ended)
        if mon.ended:
            mon.req("C05", "ends-by-timeout", mon.end_time <= W.timeout)
        if spec.get("work_conserving"):
            for tn, t in W.tasks.items():
                mon.req("C05", "feasible-work-completes", t.state == TaskState.COMPLETED, tn + " is " + t.state.name)
            if mon.ended:
                mon.req("C05", "ends-before-timeout", mon.end_time < W.timeout)
        for tn in spec.get("must_complete", []):  # work that is released long before the loop timeout and fits: it must get done
            mon.req("C05", "feasible-work-completes", W.tasks[tn].state == TaskState.COMPLETED, tn + " is " + W.tasks[tn].state.name)
        # never ends while released, runnable work remains
        for tn, t in W.tasks.items():
            if t.state == TaskState.RELEASED:
                fit_any = sor(*[mon.fits(id(wk), st) for (pi, wk, caps) in W.workers for st in t.available_execution_strategies])
                timed_out = mon.end_time >= W.timeout if mon.ended else False
                mon.req("C05", "no-runnable-work-left-at-end", sor(snot(fit_any), timed_out), tn)
    # ---- C04 whole-run clause
    mon.check_idle_full("end")
    # ---- C02 / C03 final
    for tn, t in W.tasks.items():
        if t.state == TaskState.COMPLETED:
            mon.req("C02", "completed-task-started-once", len(mon.starts[tn]) == 1 and len(mon.finishes[tn]) == 1, tn)
    # ---- C06 closure
    if "C06" in mon.on:
        c06_end(W, mon)
    if "C07" in mon.on:
        c07_end(W, mon)
    if "C08" in mon.on:
        c08_end(W, mon)
    if "C12" in mon.on:
        for tn, t in W.tasks.items():
            if t.state == TaskState.COMPLETED:
                mon.req("C12", "completed-by-deadline", t.completion_time <= t.deadline, tn)


def c06_end(W, mon):
    """Cancellation closure: Dead = lfp(cancel-requested; non-join with a dead parent; join with all parents dead)."""
    for gname, tg in W.task_graphs.items():
        names = [mon.tname(t) for t in tg.get_nodes()]
        requested = {n for n in names if mon.cancel_calls[n]}
        dead = set()
        changed = True
        # roots of cancellation: tasks whose cancel() was invoked while no parent was dead at that time are
        # taken as given; closure computed structurally
        dead |= requested
        while changed:
            changed = False
            for n in names:
                if n in dead:
                    continue
                ps = W.task_params[n]["parents"]
                if not ps:
                    continue
                if W.task_params[n]["terminal"]:
                    d = all(p in dead for p in ps)
                else:
                    d = any(p in dead for p in ps)
                if d:
                    dead.add(n)
                    changed = True
        finished = mon.ended
        for n in names:
            t = W.tasks[n]
            if n in dead:
                if finished:
                    mon.req("C06", "dead-task-reported-cancelled", t.state == TaskState.CANCELLED, f"{n} is {t.state.name}; cancel requested for {sorted(requested)}")
                mon.req("C06", "dead-task-never-started", len(mon.starts[n]) == 0, n)
            else:
                mon.req("C06", "live-task-not-cancelled", t.state != TaskState.CANCELLED, n)
            if t.state == TaskState.CANCELLED and finished:
                ev = [e for e in mon.events if e[1] == EventType.TASK_CANCEL and e[2] == n]
                mon.req("C06", "cancelled-task-has-cancel-event", len(ev) >= 1, n)
        # TASK_GRAPH_FINISHED row iff all sinks completed
        sinks = [t for t in tg.get_nodes() if not tg.get_children(t)]
        allc = all(t.state == TaskState.COMPLETED for t in sinks)
        rows = [r for r in W.csv.rows if r.split(",")[1:3] == ["TASK_GRAPH_FINISHED", gname]]
        mon.req("C06", "graph-finished-iff-sinks-complete", (len(rows) == 1) == allc if allc else len(rows) == 0, gname)


def c07_end(W, mon):
    """Conditionals: exactly one child released (non-zero probability); every task on an untaken branch, up to
    but excluding the matching join, is CANCELLED and never started; in work-conserving worlds every other
    task (the joins and everything after them included) completes exactly once."""
    spec = W.spec

    def branch_of(u):
        """tasks on the branch rooted at child u up to (excluding) the join that matches u's conditional."""
        out, st = [], [(u, 0)]
        seen = set()
        while st:
            x, depth = st.pop()
            p = W.task_params[x]
            if p["terminal"]:
                if depth == 0:
                    continue  # the matching join
                depth -= 1
            if (x, depth) in seen:
                continue
            seen.add((x, depth))
            if x not in out:
                out.append(x)
            nd = depth + 1 if p["conditional"] else depth
            for ch in p["children"]:
                st.append((ch, nd))
        return out

    untaken = set()
    for cname, tp in W.task_params.items():
        if not tp["conditional"]:
            continue
        c = W.tasks[cname]
        if c.state != TaskState.COMPLETED:
            continue
        kids = tp["children"]
        released = [k for k in kids if mon.release_calls[k]]
        mon.req("C07", "exactly-one-child-released", len(released) == 1, f"{cname}: released {released}")
        for k in released:
            p0 = W.initial_prob.get(k, W.task_params[k]["prob"])
            mon.req("C07", "released-child-has-nonzero-probability", p0 > 0, f"{k} p={p0}")
            if W.resolved_at_submission:
                mon.req("C07", "branch-is-the-one-resolved-at-submission", W.resolved_at_submission.get(cname) == k,
                        f"{cname}: ran {k}, resolved {W.resolved_at_submission.get(cname)}")
        for u in kids:
            if u in released:
                continue
            for x in branch_of(u):
                untaken.add(x)
                t = W.tasks[x]
                if mon.ended:
                    mon.req("C07", "untaken-branch-cancelled", t.state == TaskState.CANCELLED, f"{x} is {t.state.name} (conditional {cname}, taken {released})")
                mon.req("C07", "untaken-branch-never-started", len(mon.starts[x]) == 0, x)
    if spec.get("work_conserving") and mon.ended:
        for x, t in W.tasks.items():
            if x in untaken:
                continue
            mon.req("C07", "join-and-successors-complete-once", t.state == TaskState.COMPLETED and len(mon.starts[x]) == 1 and len(mon.finishes[x]) == 1,
                    f"{x} is {t.state.name} starts={len(mon.starts[x])} (untaken: {sorted(untaken)})")


def c08_end(W, mon):
    """The CSV trace and the end-of-run counters against what the monitor saw, then the project's own
    CSVReader on the same rows (cells that depend on symbolic inputs are engine tokens)."""
    env = W.env
    eng = None if env.concrete else env.eng

    def cell(x):
        if eng is not None:
            t = eng.untoken(x)
            if t is not None:
                return t
        try:
            return int(x)
        except ValueError:
            return x

    rows = [r.split(",") for r in W.csv.rows]
    by = {}
    for r in rows:
        if len(r) > 1:
            by.setdefault(r[1], []).append(r)
    tasks = W.tasks
    done = [tn for tn, t in tasks.items() if t.state == TaskState.COMPLETED]
    canc = [tn for tn, t in tasks.items() if t.state == TaskState.CANCELLED]
    # ---- summary row
    end = by.get("SIMULATOR_END", [])
    mon.req("C08", "one-summary-row", len(end) == 1)
    if len(end) == 1:
        e = [cell(x) for x in end[0]]
        missed = 0
        for tn in done:
            missed = missed + pysym.site(tasks[tn].completion_time.time > tasks[tn].deadline.time, 1, 0)
        gfin, gcan, gmiss = 0, 0, 0
        for gname, tg in W.task_graphs.items():
            sinks = [t for t in tg.get_nodes() if not tg.get_children(t)]
            if all(t.state == TaskState.COMPLETED for t in sinks):
                gfin += 1
                comp = sinks[0].completion_time.time
                for t in sinks[1:]:
                    comp = pysym.site(t.completion_time.time > comp, t.completion_time.time, comp)
                dl = None
                for t in tg.get_nodes():
                    dl = t.deadline.time if dl is None else pysym.site(t.deadline.time > dl, t.deadline.time, dl)
                gmiss = gmiss + pysym.site(comp > dl, 1, 0)
            if any(t.state == TaskState.CANCELLED for t in sinks):
                gcan += 1
        mon.req("C08", "summary-finished-tasks", e[2] == len(done), f"row {end[0]} vs {len(done)}")
        mon.req("C08", "summary-cancelled-tasks", e[3] == len(canc), f"row {end[0]} vs {sorted(canc)}")
        mon.req("C08", "summary-missed-task-deadlines", e[4] == missed, f"row {end[0]}")
        mon.req("C08", "summary-finished-graphs", e[5] == gfin, f"row {end[0]} vs {gfin}")
        mon.req("C08", "summary-cancelled-graphs", e[6] == gcan, f"row {end[0]} vs {gcan}")
        mon.req("C08", "summary-missed-graph-deadlines", e[7] == gmiss, f"row {end[0]}")
    # ---- per-task rows
    ids = {t.id: tn for tn, t in tasks.items()}
    rel_rows = {ids.get(r[7]): [cell(x) for x in r] for r in by.get("TASK_RELEASE", []) if len(r) > 9}
    plc_rows = {}
    for r in by.get("TASK_PLACEMENT", []):
        plc_rows.setdefault(ids.get(r[5]), []).append([cell(x) for x in r])
    fin_rows = {}
    for r in by.get("TASK_FINISHED", []):
        fin_rows.setdefault(ids.get(r[7]), []).append([cell(x) for x in r])
    can_rows = {}
    for r in by.get("TASK_CANCEL", []):
        can_rows.setdefault(ids.get(r[4]), []).append([cell(x) for x in r])
    miss_rows = {}
    for r in by.get("MISSED_DEADLINE", []):
        miss_rows.setdefault(ids.get(r[5]), []).append([cell(x) for x in r])
    for tn, t in tasks.items():
        if mon.release_calls[tn] and t.state not in (TaskState.VIRTUAL,):
            r = rel_rows.get(tn)
            mon.req("C08", "release-row-present", r is not None, tn)
            if r is not None:
                slow = t.available_execution_strategies.get_slowest_strategy()
                mon.req("C08", "release-row-true", sand(r[0] == t.release_time.time, r[5] == t.release_time.time, r[4] == t.intended_release_time.time,
                                                        r[6] == t.deadline.time, r[9] == slow.runtime.time, r[2] == tn, r[8] == W.graph_of[tn]), f"{tn}: {r}")
        if mon.starts[tn]:
            rs = plc_rows.get(tn, [])
            mon.req("C08", "placement-row-present", len(rs) == len(mon.starts[tn]), tn)
            if rs:
                r = rs[-1]
                st = mon.start_strategy.get(tn)
                conds = [r[0] == mon.starts[tn][-1], r[2] == tn, r[3] == W.graph_of[tn]]
                if st is not None:
                    conds.append(r[7] == st.runtime.time)
                    # resources: name, id, quantity triples
                    alloc = {}
                    for i in range(8, len(r) - 2, 3):
                        alloc[r[i]] = alloc.get(r[i], 0) + r[i + 2]
                    for rr, q in st.resources.resources:
                        if not (isinstance(q, int) and q == 0):
                            conds.append(alloc.get(rr.name, 0) == q)
                chosen = mon.chosen.get(tn)
                if chosen is not None:
                    conds.append(r[6] == chosen[2])
                mon.req("C08", "placement-row-true", sand(*conds), f"{tn}: {r}")
        else:
            mon.req("C08", "no-placement-row-for-unstarted-task", tn not in plc_rows, tn)
        if t.state == TaskState.COMPLETED:
            rs = fin_rows.get(tn, [])
            mon.req("C08", "finish-row-present", len(rs) == 1, tn)
            if rs:
                r = rs[0]
                mon.req("C08", "finish-row-true", sand(r[0] == t.completion_time.time, r[5] == t.completion_time.time, r[6] == t.deadline.time, r[2] == tn), f"{tn}: {r}")
            late = t.completion_time.time > t.deadline.time
            has = len(miss_rows.get(tn, [])) == 1
            mon.req("C08", "miss-row-iff-late", sor(sand(late, has), sand(snot(late), not miss_rows.get(tn))), tn)
            if miss_rows.get(tn):
                r = miss_rows[tn][0]
                mon.req("C08", "miss-row-true", sand(r[0] == t.completion_time.time, r[4] == t.deadline.time), f"{tn}: {r}")
        else:
            mon.req("C08", "no-finish-row-for-unfinished-task", tn not in fin_rows and tn not in miss_rows, tn)
        if t.state == TaskState.CANCELLED and mon.ended:
            rs = can_rows.get(tn, [])
            mon.req("C08", "cancel-row-present", len(rs) == 1, tn)
            if rs:
                mon.req("C08", "cancel-row-true", sand(rs[0][0] == t.cancellation_time.time, rs[0][2] == tn, rs[0][5] == W.graph_of[tn]), f"{tn}: {rs[0]}")
        elif t.state != TaskState.CANCELLED:
            mon.req("C08", "no-cancel-row-for-live-task", tn not in can_rows, tn)
    # ---- scheduler rows
    deferred = []  # obligations with a known finding go last, so that they cannot mask the others on their paths
    ss = [[cell(x) for x in r] for r in by.get("SCHEDULER_START", [])]
    sf = [[cell(x) for x in r] for r in by.get("SCHEDULER_FINISHED", [])]
    mon.req("C08", "scheduler-rows-paired", len(ss) == len(mon.sched_offers) and len(sf) <= len(ss) and len(sf) == len(mon.sched_returns) - (1 if len(mon.sched_returns) > len(sf) else 0))
    for k, r in enumerate(ss[: len(mon.sched_offers)]):
        o = mon.sched_offers[k]
        mon.req("C08", "scheduler-start-row-true", sand(r[0] == o["time"], r[2] == o["offered"], r[3] == o["resident"]), f"{r} vs {o}")
    for k, r in enumerate(sf[: len(mon.sched_returns)]):
        o = mon.sched_returns[k]
        mon.req("C08", "scheduler-finished-row-placed", sand(r[0] == o["time"] + o["runtime"], r[2] == o["runtime"], r[3] == o["placed"]), f"{r} vs {o}")
        deferred.append(("scheduler-finished-row-unplaced", r[4] == o["unplaced"], f"{r} vs {o}"))
    # ---- the project's own reader
    if mon.ended:
        from data.csv_reader import CSVReader

        rd = CSVReader.__new__(CSVReader)
        rd._simulators = {}
        import contextlib
        import io

        buf = io.StringIO()
        try:
            with contextlib.redirect_stdout(buf):  # the reader prints a note for row types it does not know
                rd.parse_events({"trace": rows})
            accepted = True
            why = None
        except (ValueError, AssertionError, KeyError) as e:
            accepted = False
            import traceback

            fr = traceback.extract_tb(e.__traceback__)[-1]
            why = f"{type(e).__name__}: {e} / {e.__cause__!r} at {fr.filename.split('/')[-1]}:{fr.lineno} `{fr.line}`"[:400]
            if "dropped_taskgraphs == canceled_task_graphs_count" in (fr.line or ""):
                # diagnose: the reader counts a graph as cancelled when it has any TASK_CANCEL row and no
                # TASK_GRAPH_FINISHED row; the simulator's census counts graphs with a cancelled sink
                g_cancel_row = {r[5] for r in by.get("TASK_CANCEL", []) if len(r) > 5}
                g_finished = {r[2] for r in by.get("TASK_GRAPH_FINISHED", []) if len(r) > 2}
                reader_count = len(g_cancel_row - g_finished)
                sink_cancelled = {g for g, tg in W.task_graphs.items() if any(t.state == TaskState.CANCELLED for t in tg.get_nodes() if not tg.get_children(t))}
                only_reader = (g_cancel_row - g_finished) - sink_cancelled
                unfinished_with_live_sinks = {g for g in only_reader if not all(t.state in (TaskState.COMPLETED, TaskState.CANCELLED) for t in W.task_graphs[g].get_nodes())}
                if only_reader and only_reader == unfinished_with_live_sinks and not (sink_cancelled - (g_cancel_row - g_finished)) and len(end) == 1 and str(end[0][6]) == str(len(sink_cancelled)):
                    why += f" [unfinished-graph-with-cancelled-branch: {sorted(only_reader)}]"
        mon.req("C08", "reader-accepts-trace", accepted, why)
        if accepted:
            simr = rd._simulators["trace"]
            rt = {x.task_id: x for x in simr.tasks}
            for tn, t in tasks.items():
                x = rt.get(t.id)
                if x is None:
                    mon.req("C08", "reader-knows-released-task", not mon.release_calls[tn] and t.state != TaskState.CANCELLED or tn not in rel_rows and tn not in can_rows, tn)
                    continue
                conds = [x.name == tn, x.task_graph == W.graph_of[tn]]
                if t.state == TaskState.COMPLETED:
                    conds += [x.completion_time == t.completion_time.time, x.release_time == t.release_time.time, x.deadline == t.deadline.time,
                              x.placement_time == mon.starts[tn][-1], harness_iff(x.missed_deadline, t.completion_time.time > t.deadline.time)]
                else:
                    conds.append(x.completion_time is None)
                conds.append(x.cancelled == (t.state == TaskState.CANCELLED))
                mon.req("C08", "reader-reconstructs-task", sand(*conds), tn)
            for gname, tg in W.task_graphs.items():
                g = simr.task_graphs.get(gname)
                sinks = [t for t in tg.get_nodes() if not tg.get_children(t)]
                fin = all(t.state == TaskState.COMPLETED for t in sinks)
                if g is not None:
                    mon.req("C08", "reader-reconstructs-graph", sand(g.was_completed == fin, (not fin) or g.cancelled is False), gname)
    for lab, cond, info in deferred:
        mon.req("C08", lab, cond, info)


def harness_iff(a, b):
    return sor(sand(a, b), sand(snot(a), snot(b)))
