"""Maximisation by a plain SMT solver (iterative strengthening).

z3.Optimize (5.1.0) was caught returning upper == lower == 1 for a maximisation whose only models have
objective 0 (sum of If(b, 1.0, 0.0) under AtMost / equivalence constraints; see DESIGN.md 6.5), so no
optimum in /verif is taken from Optimize: the optimum is the value v of a model such that
`objective > v` is unsatisfiable -- two ordinary Solver verdicts."""
from z3 import z3


def _val(v):
    if z3.is_int_value(v):
        return v.as_long()
    if z3.is_rational_value(v):
        fr = v.as_fraction()
        return int(fr) if fr.denominator == 1 else fr
    raise ValueError(f"objective value is not numeric: {v}")


def maximize(cons, term, timeout_ms=120000, max_rounds=10000):
    """-> ("sat", optimum, model) | ("unsat", None, None) | ("unknown", None, None)"""
    s = z3.Solver()
    s.set("timeout", timeout_ms)
    s.add(cons)
    r = s.check()
    if r == z3.unsat:
        return "unsat", None, None
    if r != z3.sat:
        return "unknown", None, None
    best_m = s.model()
    best = _val(best_m.eval(term, model_completion=True))
    for _ in range(max_rounds):
        s.push()
        s.add(term > (z3.RealVal(str(best)) if not isinstance(best, int) else best))
        r = s.check()
        if r == z3.unsat:
            s.pop()
            return "sat", best, best_m
        if r != z3.sat:
            s.pop()
            return "unknown", None, None
        best_m = s.model()
        nb = _val(best_m.eval(term, model_completion=True))
        s.pop()
        if not nb > best:
            return "unknown", None, None
        best = nb
    return "unknown", None, None
