"""Concrete instances for the optimisation-based planners, built through the public API
(states RELEASED / SCHEDULED / RUNNING / COMPLETED are reached by calling the real lifecycle
methods), a runner that invokes the real schedule() under model capture, and symbolic read-back
relations (which model variable means "task on worker w at time t with strategy s")."""
import logging

from . import stubs

stubs.install()

from z3 import z3  # noqa: E402

from utils import EventTime  # noqa: E402
from workers import Worker, WorkerPool, WorkerPools  # noqa: E402
from workload import (ExecutionStrategies, ExecutionStrategy, Job, JobGraph, Placement, Resource, Resources, Task,  # noqa: E402
                      TaskGraph, TaskState, Workload, WorkProfile)

from . import mip2smt  # noqa: E402

US = EventTime.Unit.US
NULL = stubs.NULL


def ET(v):
    return EventTime(int(v), US)


class Instance:
    pass


def build(spec):
    """spec:
      now: int
      workers: [cap, ...] (CPU only) or [{"CPU": c, "GPU": g}, ...];  one pool unless pools given: [[...],[...]]
      graphs: [{name, tasks:[names], edges:[[a,b]]}]
      tasks: {name: {strategies: [[runtime, cpu_demand], ...] | [[runtime, {res: q}]], deadline, release,
                     state: VIRTUAL|RELEASED|SCHEDULED|RUNNING|COMPLETED, worker: idx, strategy: idx, at: start/expected start}}
    """
    I = Instance()
    I.spec = spec
    I.shared_profiles = {}
    now = spec["now"]
    pools_spec = spec.get("pools") or [spec["workers"]]
    pools, I.workers = [], []
    for pi, ws in enumerate(pools_spec):
        wl = []
        for wi, cap in enumerate(ws):
            caps = {"CPU": cap} if isinstance(cap, int) else dict(cap)
            wk = Worker(name=f"W{len(I.workers)}", resources=Resources({Resource(name=rn): q for rn, q in caps.items()}, _logger=NULL), _logger=NULL)
            wl.append(wk)
            I.workers.append((pi, wk, caps))
        pools.append(WorkerPool(name=f"P{pi}", workers=wl, _logger=NULL))
    I.pools = pools
    I.worker_pools = WorkerPools(pools)
    I.tasks, I.params, I.graph_of = {}, {}, {}
    tgs = {}
    for g in spec["graphs"]:
        tmap = {}
        parents = {t: [a for a, b in g["edges"] if b == t] for t in g["tasks"]}
        for tn in g["tasks"]:
            tp = spec["tasks"][tn]
            strats, sp = [], []
            shared = tp.get("profile")  # tasks that name the same profile share ONE WorkProfile and its ExecutionStrategy objects (requests of one model)
            if shared and shared in I.shared_profiles:
                prof, strats, sp = I.shared_profiles[shared]
            for (rt, dem) in ([] if strats else tp["strategies"]):
                res = {"CPU": dem} if isinstance(dem, int) else dict(dem)
                # runtime_in_ms: the same runtime written in milliseconds (rt is a multiple of 1000 us)
                rtime = EventTime(rt // 1000, EventTime.Unit.MS) if tp.get("runtime_in_ms") and rt % 1000 == 0 else ET(rt)
                strats.append(ExecutionStrategy(resources=Resources({Resource(name=rn, _id="any"): q for rn, q in res.items()}, _logger=NULL),
                                                batch_size=1, runtime=rtime))
                sp.append((rt, res))
            if not (shared and shared in I.shared_profiles):
                prof = WorkProfile(name=(shared or tn) + "_p", execution_strategies=ExecutionStrategies(strats))
                if shared:
                    I.shared_profiles[shared] = (prof, strats, sp)
            is_src = not parents[tn]
            rel = tp.get("release", 0 if is_src else -1)
            t = Task(name=tn, task_graph=g["name"], job=Job(name=tn, profile=prof), deadline=ET(tp["deadline"]), timestamp=0,
                     release_time=ET(rel), _logger=NULL)
            tmap[tn] = t
            I.tasks[tn] = t
            I.graph_of[tn] = g["name"]
            I.params[tn] = {"strategies": sp, "strat_objs": strats, "deadline": tp["deadline"], "release": rel, "parents": parents[tn],
                            "children": [b for a, b in g["edges"] if a == tn], "state": tp.get("state", "RELEASED" if is_src else "VIRTUAL")}
        tgs[g["name"]] = TaskGraph(name=g["name"], tasks={tmap[t]: [tmap[b] for a, b in g["edges"] if a == t] for t in g["tasks"]},
                                   job_graph=JobGraph(name="J" + g["name"]))
    I.task_graphs = tgs
    I.workload = Workload.from_task_graphs(tgs)
    # drive the tasks into their states through the real API, in topological order
    for gname, tg in tgs.items():
        for t in tg.topological_sort():
            tn = t.name
            tp = spec["tasks"][tn]
            st = I.params[tn]["state"]
            if st == "VIRTUAL":
                continue
            rel = tp.get("release", 0)
            t.release(ET(max(rel, 0)))
            if st == "RELEASED":
                continue
            wi = tp.get("worker", 0)
            si = tp.get("strategy", 0)
            pi, wk, caps = I.workers[wi]
            strat = I.params[tn]["strat_objs"][si]
            at = tp.get("at", 0)
            pl = Placement.create_task_placement(task=t, placement_time=ET(at), worker_pool_id=pools[pi].id, worker_id=wk.id, execution_strategy=strat)
            t.schedule(ET(min(at, now)), pl)
            if st == "SCHEDULED":
                continue
            ok = pools[pi].place_task(t, execution_strategy=strat, worker_id=wk.id)
            if not ok:
                raise ValueError(f"instance infeasible: {tn} does not fit worker {wi}")
            t.start(ET(at))
            if st == "RUNNING":
                if now > at:
                    done = t.step(ET(at), ET(now - at))
                    if done:
                        raise ValueError(f"instance inconsistent: {tn} would have finished before now")
                continue
            # COMPLETED
            rt = I.params[tn]["strategies"][si][0]
            t.step(ET(at), ET(rt))
            pools[pi].remove_task(ET(at + rt), t)
            t.finish(ET(at + rt))
    I.now = now
    return I


def snapshot(I):
    """Observable state of the live cluster and tasks (for side-effect freedom)."""
    out = {}
    for k, (pi, wk, caps) in enumerate(I.workers):
        for rn in caps:
            r = Resource(name=rn, _id="any")
            out[("avail", k, rn)] = wk.resources.get_available_quantity(r)
            out[("alloc", k, rn)] = wk.resources.get_allocated_quantity(r)
        out[("placed", k)] = sorted(t.name for t in wk.get_placed_tasks())
    for tn, t in I.tasks.items():
        out[("task", tn)] = (t.state.name, t.release_time.time, t.start_time.time, t.completion_time.time,
                             t.remaining_time.time, t.worker_pool_id, t.deadline.time,
                             None if t.current_placement is None else t.current_placement.placement_time.time)
    return out


# ------------------------------------------------------------------------------------- runners

def make_scheduler(kind, opts):
    o = dict(opts)
    rt = ET(o.pop("runtime", 0))
    la = ET(o.pop("lookahead", 0))
    if kind == "ILP":
        import schedulers.ilp_scheduler as mod

        return mod, mod.ILPScheduler(runtime=rt, lookahead=la, enforce_deadlines=o.pop("enforce_deadlines", True), **o)
    if kind == "TSG":
        import schedulers.tetrisched_gurobi_scheduler as mod

        td = ET(o.pop("time_discretization", 1))
        pa = o.pop("plan_ahead", None)
        kw = {}
        if pa is not None:
            kw["plan_ahead"] = ET(pa)
        return mod, mod.TetriSchedGurobiScheduler(runtime=rt, lookahead=la, time_discretization=td, **kw, **o)
    raise ValueError(kind)


class Run:
    pass


def run_gurobi(I, kind, opts):
    """Invoke the real schedule() on the instance with model capture; returns a Run with the z3 image
    and the per-task symbolic read-back."""
    mod, sch = make_scheduler(kind, opts)
    R = Run()
    R.kind, R.opts, R.I = kind, opts, I
    before = snapshot(I)
    with mip2smt.capture_gurobi(mod, sch) as rec:
        R.placements = sch.schedule(ET(I.now), I.workload, I.worker_pools)
    R.side_effect_free = snapshot(I) == before
    R.scheduler = sch
    R.offered = None
    if not rec["models"]:
        R.model = None
        return R
    R.gmodel = rec["models"][-1]
    R.task_vars = rec["task_vars"][-1]
    R.worker_index = rec["workers"][-1]  # index -> Worker (copies with the same ids)
    R.zm = mip2smt.gurobi_to_z3(R.gmodel)
    R.model = R.zm
    R.status = R.gmodel.Status
    # worker index -> position in I.workers
    ids = [wk.id for (_, wk, _) in I.workers]
    R.widx = {k: ids.index(w.id) for k, w in R.worker_index.items()}
    R.w2pool = {wk.id: I.pools[pi].id for (pi, wk, _) in I.workers}
    R.read = {}
    zv = R.zm.vars
    for name, tv in R.task_vars.items():
        tn = tv.task.name if hasattr(tv.task, "name") else name
        cells = []  # (worker position, time term or None, strategy index, z3 0/1 term)
        if kind == "ILP":
            st = tv.start_time
            start = zv[st.VarName] if hasattr(st, "VarName") else z3.IntVal(int(st))
            for (wid, strat), var in tv._placed_on_worker_with_strategy.items():
                si = _sidx(I, tn, strat)
                term = zv[var.VarName] if hasattr(var, "VarName") else z3.IntVal(int(var))
                cells.append((R.widx[wid], None, si, term))
            R.read[tn] = {"start": start, "cells": cells, "prev": tv.previously_placed, "tv": tv}
        else:
            for (wid, t, strat), var in tv._space_time_strategy_matrix.items():
                si = _sidx(I, tn, strat)
                term = zv[var.VarName] if hasattr(var, "VarName") else z3.IntVal(int(var))
                cells.append((R.widx[wid], t, si, term))
            st = tv.start_time
            aux = zv[st.VarName] if hasattr(st, "VarName") else (z3.IntVal(int(st)) if st is not None else None)
            R.read[tn] = {"start": z3.Sum([c[3] * c[1] for c in cells]) if cells else z3.IntVal(0), "aux_start": aux, "cells": cells,
                          "prev": tv.previously_placed, "tv": tv}
    return R


def _sidx(I, tn, strat):
    for k, so in enumerate(I.params[tn]["strat_objs"]):
        if so is strat:
            return k
    # running tasks carry the strategy object of their current placement
    for k, so in enumerate(I.params[tn]["strat_objs"]):
        if so == strat:
            return k
    raise KeyError(f"strategy of {tn} not found")


def placed(R, tn):
    return z3.Sum([c[3] for c in R.read[tn]["cells"]]) >= 1 if R.read[tn]["cells"] else z3.BoolVal(False)


def runtime_chosen(R, tn):
    rts = [s[0] for s in R.I.params[tn]["strategies"]]
    return z3.Sum([c[3] * rts[c[2]] for c in R.read[tn]["cells"]]) if R.read[tn]["cells"] else z3.IntVal(0)


def predicted_placements(R, vals):
    """What the read-back relation predicts get_placements() returns under variable values `vals`."""
    out = {}
    m = z3.Solver()
    for tn, rd in R.read.items():
        if rd["prev"]:
            continue
        hit = None
        for (wpos, t, si, term) in rd["cells"]:
            v = _evalz(term, vals)
            if v == 1:
                tt = t if t is not None else _evalz(rd["start"], vals)
                hit = (wpos, tt, si)
                break
        out[tn] = hit
    return out


def _evalz(term, vals):
    if z3.is_int_value(term):
        return term.as_long()
    if z3.is_const(term):
        return vals.get(term.decl().name())
    # small linear terms (sum of cell*time)
    if z3.is_add(term):
        return sum(_evalz(c, vals) for c in term.children())
    if z3.is_mul(term):
        p = 1
        for c in term.children():
            p *= _evalz(c, vals)
        return p
    raise ValueError(f"cannot evaluate {term}")


def real_placements(R, vals):
    """Fix the variables of the REAL gurobi model to `vals`, re-optimise, call the real get_placements."""
    out = {}
    with mip2smt.gurobi_fixed(R.gmodel, vals) as status:
        if status != 2:
            return None, status
        for name, tv in R.task_vars.items():
            if tv.previously_placed:
                continue
            for pl in tv.get_placements(R.worker_index, R.w2pool):
                tn = pl.task.name
                if pl.is_placed():
                    wpos = [wk.id for (_, wk, _) in R.I.workers].index(pl.worker_id)
                    out[tn] = (wpos, pl.placement_time.time, _sidx(R.I, tn, pl.execution_strategy))
                else:
                    out[tn] = None
    return out, 2


def returned_placements(R):
    """Placements actually returned by schedule(): {task: None | (worker position, time, strategy index)}, cancels: set."""
    out, cancels = {}, set()
    ids = [wk.id for (_, wk, _) in R.I.workers]
    pool_ids = [p.id for p in R.I.pools]
    for pl in R.placements:
        tn = pl.task.name
        if pl.placement_type == Placement.PlacementType.CANCEL_TASK:
            cancels.add(tn)
            continue
        if pl.placement_type != Placement.PlacementType.PLACE_TASK:
            continue
        if pl.is_placed():
            wpos = ids.index(pl.worker_id) if pl.worker_id is not None else None
            si = _sidx(R.I, tn, pl.execution_strategy) if pl.execution_strategy is not None else None
            out.setdefault(tn, []).append((wpos, pl.placement_time.time, si, pool_ids.index(pl.worker_pool_id) if pl.worker_pool_id in pool_ids else None))
        else:
            out.setdefault(tn, []).append(None)
    return out, cancels


# ------------------------------------------------------------------------------------- Z3 policy

def run_z3(I, opts):
    """Invoke the real Z3Scheduler.schedule(); capture the z3.Optimize it builds (hard assertions)."""
    import contextlib
    import io

    import schedulers.z3_scheduler as mod

    o = dict(opts)
    sch = mod.Z3Scheduler(runtime=ET(o.pop("runtime", 0)), lookahead=ET(o.pop("lookahead", 0)), **o)
    R = Run()
    R.kind, R.opts, R.I = "Z3", opts, I
    rec = {}
    orig_obj, orig_add = sch._add_objective, sch._add_variables

    def add_objective(optimizer, tasks_to_variables, workload):
        rec["opt"] = optimizer
        rec["tv"] = tasks_to_variables
        return orig_obj(optimizer, tasks_to_variables, workload)

    def add_variables(sim_time, optimizer, tasks, workers):
        rec["workers"] = workers
        return orig_add(sim_time, optimizer, tasks, workers)

    sch._add_objective, sch._add_variables = add_objective, add_variables
    before = snapshot(I)
    with contextlib.redirect_stdout(io.StringIO()):  # the policy prints the time on every call
        R.placements = sch.schedule(ET(I.now), I.workload, I.worker_pools)
    R.side_effect_free = snapshot(I) == before
    R.scheduler = sch
    if "opt" not in rec:
        R.model = None
        return R
    R.zm = mip2smt.z3opt_to_z3(rec["opt"])
    R.model = R.zm
    ids = [wk.id for (_, wk, _) in I.workers]
    R.read = {}
    for name, tv in rec["tv"].items():
        tn = tv.task.name
        # worker bit value -> position
        wmap = {bit: ids.index(w.id) for bit, w in rec["workers"].items()}
        R.read[tn] = {"start": tv.start_time, "placed": tv.is_placed, "worker_bv": tv.placed_on_worker, "wmap": wmap, "prev": False, "tv": tv}
    return R


# ------------------------------------------------------------------------------------- TetriSched-CPLEX

def run_cplex(I, opts):
    """Invoke the real TetriSchedCPLEXScheduler.schedule(); the docplex model is translated inside the
    scheduler's own call sequence (right after the objective is added, before solve()/end())."""
    import schedulers.tetrisched_cplex_scheduler as mod

    o = dict(opts)
    kw = {}
    if o.get("plan_ahead") is not None:
        kw["plan_ahead"] = ET(o.pop("plan_ahead"))
    o.pop("plan_ahead", None)
    sch = mod.TetriSchedCPLEXScheduler(runtime=ET(o.pop("runtime", 0)), lookahead=ET(o.pop("lookahead", 0)),
                                       time_discretization=ET(o.pop("time_discretization", 1)), **kw, **o)
    R = Run()
    R.kind, R.opts, R.I = "TSC", opts, I
    rec = {}
    orig_obj, orig_add = sch._add_objective, sch._add_variables

    def add_objective(optimizer, tasks_to_variables):
        r = orig_obj(optimizer=optimizer, tasks_to_variables=tasks_to_variables)
        rec["zm"] = mip2smt.docplex_to_z3(optimizer)
        rec["tv"] = tasks_to_variables
        rec["byname"] = {v.name: v for v in optimizer.iter_variables()}
        rec["m"] = optimizer
        return r

    def add_variables(sim_time, optimizer, tasks_to_be_scheduled, workers):
        rec["workers"] = workers
        return orig_add(sim_time=sim_time, optimizer=optimizer, tasks_to_be_scheduled=tasks_to_be_scheduled, workers=workers)

    sch._add_objective, sch._add_variables = add_objective, add_variables
    before = snapshot(I)
    R.placements = sch.schedule(ET(I.now), I.workload, I.worker_pools)
    R.side_effect_free = snapshot(I) == before
    R.scheduler = sch
    if "zm" not in rec:
        R.model = None
        return R
    R.zm = R.model = rec["zm"]
    R.task_vars = rec["tv"]
    R.worker_index = rec["workers"]
    R.cpx = rec
    ids = [wk.id for (_, wk, _) in I.workers]
    R.widx = {k: ids.index(w.id) for k, w in R.worker_index.items()}
    R.w2pool = {wk.id: I.pools[pi].id for (pi, wk, _) in I.workers}
    R.read = {}
    zv = R.zm.vars
    for name, tv in R.task_vars.items():
        tn = tv.task.name
        cells = []
        for (wid, t, strat), var in tv.space_time_matrix.items():
            si = _sidx(I, tn, strat)
            term = zv[var.name] if hasattr(var, "name") and not isinstance(var, int) else z3.IntVal(int(var))
            cells.append((R.widx[wid], t, si, term))
        R.read[tn] = {"start": z3.Sum([c[3] * c[1] for c in cells]) if cells else z3.IntVal(0), "cells": cells, "prev": tv.previously_placed, "tv": tv}
    return R


def real_placements_cplex(R, vals):
    """Call the real get_placements() on a SolveSolution carrying the given variable values."""
    from docplex.mp.solution import SolveSolution

    sol = SolveSolution(model=R.cpx["m"], var_value_map={R.cpx["byname"][n]: x for n, x in vals.items() if n in R.cpx["byname"]})
    out = {}
    ids = [wk.id for (_, wk, _) in R.I.workers]
    for name, tv in R.task_vars.items():
        if tv.previously_placed:
            continue
        for pl in tv.get_placements(sol, R.worker_index, R.w2pool):
            tn = pl.task.name
            out[tn] = (ids.index(pl.worker_id), pl.placement_time.time, _sidx(R.I, tn, pl.execution_strategy)) if pl.is_placed() else None
    return out, 2


def run(I, kind, opts):
    if kind == "Z3":
        return run_z3(I, opts)
    if kind == "TSC":
        return run_cplex(I, opts)
    return run_gurobi(I, kind, opts)


def real(R, vals):
    if R.kind == "TSC":
        return real_placements_cplex(R, vals)
    return real_placements(R, vals)
