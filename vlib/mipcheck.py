"""Driver for the model-capture checks (C10-C12, C14): runs `mod.check_instance(spec)` for every
instance of the tier in a process pool, aggregates, replays counterexamples (already done inside
check_instance against the real solver), writes evidence (level translation_validation)."""
import hashlib
import json
import multiprocessing as mp
import os
import sys
import time
import traceback

from . import harness

VERIF = harness.VERIF


def _job(args):
    modname, idx, spec = args
    mod = harness._load(modname)
    t0 = time.time()
    try:
        r = mod.check_instance(spec)
    except Exception as e:
        r = {"error": f"{type(e).__name__}: {e} @ " + " <- ".join(f"{f.filename.split('/')[-1]}:{f.lineno}" for f in reversed(traceback.extract_tb(e.__traceback__)[-4:]))}
    r["idx"] = idx
    r["wall"] = round(time.time() - t0, 3)
    return r


def main(mod, argv=None, collect=None):
    import argparse

    ap = argparse.ArgumentParser()
    ap.add_argument("--tier", default=os.environ.get("VERIF_TIER", "quick"))
    ap.add_argument("--replay")
    ap.add_argument("--jobs", type=int, default=int(os.environ.get("VERIF_JOBS", "16")))
    ap.add_argument("--only")
    ap.add_argument("--no-evidence", action="store_true")
    a = ap.parse_args(argv)
    pid = mod.ID
    seed = int(os.environ.get("VERIF_SEED", "0"))
    tier = "thorough" if a.tier.startswith("t") else "quick"
    if a.replay:
        body = json.load(open(a.replay))
        r = mod.check_instance(body["instance"])
        bad = [v for v in r.get("violations", []) if v["label"] == body["label"]]
        print(json.dumps({"reproduced": bool(bad), "violations": r.get("violations", [])[:5]}, indent=1, default=str))
        if bad:
            print(f"VIOLATION property={pid} replay={a.replay}")
            return 1
        return 0
    t0 = time.time()
    specs = mod.instances(tier)
    if a.only:
        specs = [s for s in specs if a.only in s["name"]]
    import random

    order = list(range(len(specs)))
    random.Random(seed).shuffle(order)
    with mp.get_context("fork").Pool(a.jobs) as pool:
        results = list(pool.imap_unordered(_job, [(mod.__name__, i, specs[i]) for i in order], chunksize=1))
    results.sort(key=lambda r: r["idx"])
    tot = {"queries": 0, "unsat": 0, "sat": 0, "unknown": 0, "solver_s": 0.0, "validated": 0, "models": 0, "skipped": 0}
    errors, viol, samples = [], [], []
    checked = {}
    crashes = []
    for r in results:
        spec = specs[r["idx"]]
        if r.get("crashed"):
            crashes.append({"instance": spec["name"], "exception": r.get("crash")})
        if "error" in r:
            errors.append(f"{spec['name']}: {r['error']}")
            continue
        for k in tot:
            tot[k] += r.get(k, 0)
        for lab, n in r.get("checked", {}).items():
            checked[lab] = checked.get(lab, 0) + n
        for v in r.get("violations", []):
            viol.append((r["idx"], v))
        for e in r.get("errors", []):
            errors.append(f"{spec['name']}: {e}")
        if len(samples) < 8 and r.get("sample"):
            samples.append({"instance": spec["name"], **r["sample"]})
    harness_errors = list(errors[:6])
    if tot["unknown"]:
        harness_errors.append(f"{tot['unknown']} solver queries returned unknown")
    for lab in getattr(mod, "REQUIRED_LABELS", []):
        if not checked.get(lab):
            harness_errors.append(f"obligation '{lab}' was never reached (vacuous)")
    if tot["models"] == 0:
        harness_errors.append("no model was captured")
    known = [k for k in harness.known_findings() if k.get("property") == pid and k.get("status", "known") == "known"]
    reported, known_hit = [], {}
    groups = {}
    for i, v in viol:
        sig = mod.signature(specs[i], v) if hasattr(mod, "signature") else v["label"]
        groups.setdefault(sig, []).append((i, v))
    for sig, members in sorted(groups.items()):
        i, v = members[0]
        kn = next((k for k in known if k["signature"] == sig), None)
        if kn:
            known_hit[sig] = {"finding": kn, "count": len(members), "example": {"instance": specs[i]["name"], "detail": v.get("detail")}}
            continue
        d = os.path.join(VERIF, "replays")
        os.makedirs(d, exist_ok=True)
        body = {"property": pid, "mod": mod.__name__, "instance": specs[i], "label": v["label"], "signature": sig, "detail": v.get("detail")}
        h = hashlib.sha1(json.dumps(body, sort_keys=True, default=str).encode()).hexdigest()[:10]
        p = os.path.join(d, f"{pid}-{h}.json")
        json.dump(body, open(p, "w"), indent=1, default=str)
        reported.append({"signature": sig, "instance": specs[i]["name"], "label": v["label"], "replay": p, "detail": v.get("detail"), "count": len(members)})
    wall = time.time() - t0
    ev = {
        "property_id": pid, "tier": tier, "seed": seed, "level": "translation_validation",
        "coverage": {
            "programs": tot["models"], "disagreements_checked": tot["validated"], "samples": samples or [{"note": "none"}],
            "explanation": getattr(mod, "EXPLANATION", ""),
            "engine": getattr(mod, "ENGINE", "mip2smt: the optimisation model built by the real scheduler code is captured at optimize() time and translated to z3; properties are asserted over ALL its solutions"),
            "instances": len(specs), "instances_without_model": tot["skipped"], "solver_queries": tot["queries"], "unsat": tot["unsat"], "sat": tot["sat"],
            "solver_unknown": tot["unknown"], "solver_seconds": round(tot["solver_s"], 2), "obligations_checked": checked,
            "bounds": getattr(mod, "BOUNDS", ""), "outside_claim": getattr(mod, "OUTSIDE", ""),
            "violations_reported": reported, "known_findings_hit": [{"signature": s, "count": d["count"], "example": d["example"]} for s, d in known_hit.items()],
            "harness_errors": harness_errors, "exhaustive": not harness_errors,
            "instances_where_the_policy_raised": len(crashes), "policy_exceptions": crashes[:6],
        },
        "assumptions": getattr(mod, "ASSUMPTIONS", []),
        "wall_s": round(wall, 2), "violations": len(reported),
    }
    if collect is not None:
        collect["evidence"] = ev
    elif not a.no_evidence and not a.only:
        os.makedirs(os.path.join(VERIF, "evidence"), exist_ok=True)
        json.dump(ev, open(os.path.join(VERIF, "evidence", f"{pid}.json"), "w"), indent=1, default=str)
    print(f"[{pid}] tier={tier} instances={len(specs)} models={tot['models']} queries={tot['queries']} unsat={tot['unsat']} sat={tot['sat']} "
          f"unknown={tot['unknown']} readback-validations={tot['validated']} solver_s={tot['solver_s']:.1f} wall={wall:.1f}s")
    print(f"[{pid}] obligations: {checked}")
    if crashes:
        print(f"[{pid}] the policy raised on {len(crashes)} instance(s) (reported by C10): {crashes[:2]}")
    for s, d in known_hit.items():
        print(f"KNOWN-FINDING: property={pid} {d['finding'].get('description', s)} [{s}] (hit on {d['count']} instance queries)")
    for r in reported:
        print(f"VIOLATION property={pid} replay={r['replay']}")
        print(f"  {r['signature']} instance={r['instance']} x{r['count']} detail={str(r.get('detail'))[:300]}")
    for h in harness_errors:
        print(f"HARNESS-ERROR [{pid}]: {h}"[:1200])
    if reported:
        return 1
    if harness_errors:
        return 3
    return 0
