"""Cheap first-hit line/function coverage of /repo sources via sys.monitoring (3.12).

Each location reports once and is then disabled, so the overhead after warm-up is ~0.
Used as a vacuity guard: a check whose anchored mechanism lines were never executed on
any explored path fails with a harness error.
"""
import sys

_TOOL = 4
_lines = set()
_funcs = set()
_on = False
_prefix = "/repo/"


def _line(code, line):
    fn = code.co_filename
    if fn.startswith(_prefix):
        _lines.add((fn[len(_prefix):], line))
    return sys.monitoring.DISABLE


def _start(code, off):
    fn = code.co_filename
    if fn.startswith(_prefix):
        _funcs.add((fn[len(_prefix):], code.co_qualname))
    return sys.monitoring.DISABLE


def start(prefix="/repo/"):
    global _on, _prefix
    if _on:
        return
    _prefix = prefix
    m = sys.monitoring
    try:
        m.use_tool_id(_TOOL, "verifcov")
    except ValueError:
        return
    m.register_callback(_TOOL, m.events.LINE, _line)
    m.register_callback(_TOOL, m.events.PY_START, _start)
    m.set_events(_TOOL, m.events.LINE | m.events.PY_START)
    _on = True


def snapshot():
    return set(_lines), set(_funcs)


def covered(lines, fname, lo, hi):
    return sum(1 for (f, l) in lines if f == fname and lo <= l <= hi)
