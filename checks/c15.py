"""C15 -- Clockwork batching: full, same-model, loaded, on-time batches only; each request placed at
most once; hopeless requests cancelled.  The real ClockworkScheduler object lives across the successive
schedule() calls of a whole simulated run (models pre-loaded on the workers by the harness)."""
import sys

from vlib import harness, simworld
from vlib import worlds as w
from vlib.simcheck import RT3, SIM_ASSUMPTIONS, SIM_OUTSIDE

ID = "C15"
ORACLES = ["C15", "C12"]
ANCHORS = [("schedulers/clockwork_scheduler.py", "Model.get_available_execution_strategies"), ("schedulers/clockwork_scheduler.py", "Model.get_placements"),
           ("schedulers/clockwork_scheduler.py", "Model.remove_task"), ("schedulers/clockwork_scheduler.py", "ClockworkScheduler.run_admission"),
           ("schedulers/clockwork_scheduler.py", "ClockworkScheduler.run_inference")]
LIMITS = {"samples_per_job": 1, "validate_per_job": 1}
CRASH_IS_VIOLATION = False
ASSUMPTIONS = SIM_ASSUMPTIONS + ["models are loaded on the workers by the harness before the run (scheduler_run_load is off, as by default; with it on the demand counters become floating-point decisions: outside the claim)",
                                  "Model.Request.get_demand (two float quotients that only feed the load/eviction priorities) returns opaque fresh reals under the engine; the concrete replay uses the real method"]
OUTSIDE = SIM_OUTSIDE + "; scheduler_run_load=True (model loading / eviction decisions)"
BOUNDS = "2-4 requests over 1-2 models, strategies with batch sizes {1,2} (listed in both orders) and symbolic runtimes, symbolic releases/deadlines, 1-2 workers with each model loaded or absent, both goals"
EXPLANATION = ("real Simulator + real ClockworkScheduler on all feasible paths; every Placements object returned by schedule() is judged (z3) against the monitor's ledger: one model per batch, size == batch_size, "
               "model loaded and strategy fits on the worker, now + runtime <= every member's deadline, no request placed twice, cancel <=> hopeless; completed => completion <= deadline")
REQUIRED_LABELS = ["C15:one-model-per-batch", "C15:batch-is-full", "C15:model-loaded-on-worker", "C15:worker-can-hold-batch", "C15:batch-meets-earliest-deadline",
                   "C15:request-placed-at-most-once", "C15:cancel-only-if-hopeless", "C15:hopeless-request-not-placed", "C12:completed-by-deadline"]

GPU1 = [[{"RAM": 100, "GPU": 1}]]
GPU1x2 = [[{"RAM": 100, "GPU": 1}, {"RAM": 100, "GPU": 1}]]


def model(batches, rts=None):
    return {"strategies": [{"rt": (rts or {}).get(b, RT3), "batch": b, "res": {"GPU": 1}} for b in batches], "load_res": {"RAM": 10}}


def reqs(n, models=("M0",), release="sym", deadline="sym"):
    gs, ts = [], {}
    for i in range(n):
        gs.append(w.G(f"G{i}", [f"Q{i}"], [], release=release if i else 0, deadline=deadline))
        ts[f"Q{i}"] = {"model": models[i % len(models)]}
    return gs, ts


def worlds(tier):
    ws = []
    for goal in ("clockwork", "least_slack"):
        g, t = reqs(2, release=["sym", 0, 6], deadline=["sym", 0, 12])
        ws.append(w.W(f"2req-1model-b[1,2]-{goal}", g, GPU1, "CLOCKWORK", goal=goal, models={"M0": model([1, 2])}, tasks=t, preload={"0:0": ["M0"]}, split=6, weight=30, retry_loops=True))
        if goal == "clockwork" or tier == "thorough":
            g, t = reqs(3, release=["sym", 0, 4], deadline=["sym", 0, 12])
            ws.append(w.W(f"3req-1model-b[2,1]-{goal}", g, GPU1, "CLOCKWORK", goal=goal, models={"M0": model([2, 1])}, tasks=t, preload={"0:0": ["M0"]}, split=9, weight=100, retry_loops=True))
    g, t = reqs(3, models=("M0", "M1"), release=["sym", 0, 4], deadline=["sym", 0, 12])
    ws.append(w.W("3req-2models-one-worker-each", g, GPU1x2, "CLOCKWORK", goal="least_slack", models={"M0": model([2, 1], rts={2: 3}), "M1": model([1])}, tasks=t, preload={"0:0": ["M0"], "0:1": ["M1"]}, split=8, weight=100,
                  retry_loops=True))
    # slow big batch listed first, two early requests + two later ones: expiry from one queue while the other strategy still serves
    gs = [w.G("G0", ["Q0"], [], release=0, deadline=["sym", 6, 9]), w.G("G1", ["Q1"], [], release=0, deadline=["sym", 6, 9]),
          w.G("G2", ["Q2"], [], release=["sym", 2, 4], deadline=["sym", 10, 14]), w.G("G3", ["Q3"], [], release=["sym", 2, 4], deadline=["sym", 10, 14])]
    ws.append(w.W("4req-1model-slow-big-batch-listed-first", gs, GPU1, "CLOCKWORK", models={"M0": model([2, 1], rts={2: 8, 1: ["sym", 1, 2]})},
                  tasks={f"Q{i}": {"model": "M0"} for i in range(4)}, preload={"0:0": ["M0"]}, split=9, weight=300, retry_loops=True))
    g, t = reqs(3, release=["sym", 0, 3], deadline=["sym", 0, 12])
    ws.append(w.W("3req-1model-second-worker-without-model", g, GPU1x2, "CLOCKWORK", models={"M0": model([1, 2], rts={2: 3}), "M1": model([1])}, tasks=t, preload={"0:0": ["M0"], "0:1": ["M1"]}, split=8,
                  weight=100, retry_loops=True))
    # the model is still being loaded (usable from t=4) when the first requests arrive
    g, t = reqs(2, release=["sym", 0, 6], deadline=["sym", 0, 16])
    ws.append(w.W("2req-1model-b[1,2]-model-still-loading-until-4", g, GPU1, "CLOCKWORK", models={"M0": model([1, 2])}, tasks=t, loading={"0:0": {"M0": 4}}, split=6, weight=30, retry_loops=True))
    # the load/evict thread is on: A is loaded (and fills the RAM) with a full batch waiting, B is wanted by more requests
    gs = [w.G(f"G{i}", [f"Q{i}"], [], release=0, deadline=30 + i) for i in range(5)]
    ts = {f"Q{i}": {"model": "MA" if i < 2 else "MB"} for i in range(5)}
    ws.append(dict(w.W("direct-run_load-evicts-a-loaded-model-with-a-full-batch-waiting", gs, [[{"GPU": 1, "RAM": 10}]], "CLOCKWORK", models={"MA": model([2], rts={2: 3}), "MB": model([2], rts={2: 3})},
                       tasks=ts, preload={"0:0": ["MA"]}, run_load=True, split=5, weight=10), kind="direct"))
    # a scheduler that is configured to take time itself (batch of two only: the first request waits for a partner)
    g, t = reqs(2, release=["sym", 0, 6], deadline=["sym", 0, 14])
    ws.append(w.W("2req-1model-b[2]-nonzero-scheduler-runtime", g, GPU1, "CLOCKWORK", models={"M0": model([2])}, tasks=t, preload={"0:0": ["M0"]}, split=6, weight=30, retry_loops=True,
                  sched_runtime=["sym", 0, 3]))
    if tier == "thorough":
        # four requests: two are present from the start, the other two arrive together later (fewer arrival orders, same batching decisions)
        def reqs4(models):
            gs = [w.G("G0", ["Q0"], [], release=0, deadline=["sym", 0, 12]), w.G("G1", ["Q1"], [], release=["sym", 0, 1], deadline=["sym", 0, 12]),
                  w.G("G2", ["Q2"], [], release=["sym", 1, 3], deadline=["sym", 6, 14]), w.G("G3", ["Q3"], [], release=["sym", 1, 3], deadline=["sym", 6, 14])]
            return gs, {f"Q{i}": {"model": models[i % len(models)]} for i in range(4)}

        g, t = reqs4(("M0", "M1"))
        ws.append(w.W("4req-2models-both-loaded-two-workers", g, GPU1x2, "CLOCKWORK", goal="least_slack", models={"M0": model([2, 1], rts={2: 3, 1: 2}), "M1": model([1, 2], rts={2: 3, 1: 2})}, tasks=t,
                      preload={"0:0": ["M0", "M1"], "0:1": ["M0", "M1"]}, split=10, weight=800, retry_loops=True))
        g, t = reqs4(("M0",))
        ws.append(w.W("4req-1model-b[1,2]-clockwork", g, GPU1, "CLOCKWORK", models={"M0": model([1, 2], rts={2: 3, 1: 2})}, tasks=t, preload={"0:0": ["M0"]}, split=10, weight=800, retry_loops=True))
    return ws


def _opaque_demand(self):
    """Stand-in for Model.Request.get_demand under the engine: the two float demand figures are opaque
    fresh reals (they only feed the load/eviction priorities, which are off by default)."""
    env = harness.CUR_ENV
    if env.concrete or getattr(_cw, "_VERIF_REAL_DEMAND", False):
        return _real_get_demand(self)
    return (env.real("load_demand"), env.real("exec_demand"))


import schedulers.clockwork_scheduler as _cw  # noqa: E402

_real_get_demand = _cw.Model.Request.get_demand
_cw.Model.Request.get_demand = _opaque_demand


def run_direct(env, world):
    """One real ClockworkScheduler.schedule() call with the load/evict thread enabled, on a state built through the public API:
    model A loaded on the only worker (it takes all the RAM) with a full batch queued, model B not loaded with more requests.
    Whatever the call decides about loading, a batch may only be placed for a model that the same call does not evict."""
    _cw._VERIF_REAL_DEMAND = True  # (flag kept on the scheduler module: this file may be loaded under two module names)
    try:
        return _run_direct(env, world)
    finally:
        _cw._VERIF_REAL_DEMAND = False


def _run_direct(env, world):
    from workload import Placement

    W = simworld.build(env, world)
    now = utils_ET(0)
    for tn, t in W.tasks.items():
        t.release(now)
    pls = list(W.scheduler.schedule(now, W.workload, W.worker_pools))
    evicted = {(p.worker_id, id(p.work_profile)) for p in pls if p.placement_type == Placement.PlacementType.EVICT_WORK_PROFILE}
    placed = [p for p in pls if p.placement_type == Placement.PlacementType.PLACE_TASK and p.is_placed()]
    for p in placed:
        env.require("C15:model-loaded-on-worker", (p.worker_id, id(p.task.profile)) not in evicted,
                    f"{p.task.name} placed on a worker from which the same schedule() call evicts its model")
        mname = W.task_params[p.task.name]["model"]
        wk = [w_ for (_, w_, _) in W.workers if w_.id == p.worker_id]
        env.require("C15:model-loaded-on-worker", len(wk) == 1 and mname in W.preloaded[id(wk[0])], f"{p.task.name}: model {mname} not loaded there")
    env.require("C15:direct-call-returns", True)
    env.observe("decisions", sorted((p.placement_type.name, p.task.name if p.placement_type in (Placement.PlacementType.PLACE_TASK, Placement.PlacementType.CANCEL_TASK) else p.work_profile.name) for p in pls))
    harness.finish_path(env)


def utils_ET(t):
    from utils import EventTime

    return EventTime(t, EventTime.Unit.US)


def run(env, world):
    if world.get("kind") == "direct":
        return run_direct(env, world)
    simworld.run(env, world, ORACLES)


if __name__ == "__main__":
    import checks.c15 as _m

    sys.exit(harness.main(_m))
