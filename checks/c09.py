"""C09 -- runs are reproducible from the random seed.

Decided as non-interference by self-composition: on every feasible path the same world (same symbolic
inputs, same seed) is simulated twice under two different *environments* -- wall-clock readings are fresh
unconstrained symbols in each run, every generator constructed without a seed yields fresh symbols, and
sets of strings are iterated in two different orders -- and z3 must prove the two traces equal cell by
cell (the measured scheduler duration, last cell of SCHEDULER_FINISHED, is masked)."""
import random as _random
import sys

from vlib import harness, pysym, simworld, stubs
from vlib import worlds as w
from vlib.pysym import sand, snot, sor
from vlib.simcheck import RT3, SIM_ASSUMPTIONS, SIM_OUTSIDE, small

import schedulers.edf_scheduler as edf_mod  # noqa: E402
import schedulers.fifo_scheduler as fifo_mod  # noqa: E402
import schedulers.lsf_scheduler as lsf_mod  # noqa: E402
import simulator as sim_mod  # noqa: E402
import workload.jobs as jobs_mod  # noqa: E402
import workload.tasks as tasks_mod  # noqa: E402
from utils import EventTime  # noqa: E402
from workload import ExecutionStrategies, ExecutionStrategy, Job, JobGraph, Resource, Resources, Workload, WorkProfile  # noqa: E402

ID = "C09"
US = EventTime.Unit.US
ANCHORS = [("utils.py", "EventTime.fuzz"), ("workload/tasks.py", "Task.__init__"), ("workload/tasks.py", "TaskGraph.notify_task_completion"),
           ("simulator.py", "Simulator.__log_utilization"), ("workload/jobs.py", "JobGraph.ReleasePolicy.get_release_times")]
LIMITS = {"samples_per_job": 1, "validate_per_job": 0, "stop_after_violations": 6, "max_viol_per_label": 6}
CRASH_IS_VIOLATION = False
ASSUMPTIONS = SIM_ASSUMPTIONS + [
    "two runs per path share every input and the seed (random.seed(N), EventTime's generator Random(N)); they differ in: time.time() readings (fresh reals per call, module-global `time` of the greedy schedulers), "
    "the iteration order of sets of strings in simulator.py (sorted vs reverse sorted), and the draws of generators built without a seed (np.random.default_rng() in workload/jobs.py: fresh symbols)",
    "seeded draws (random.choices for branches, Random(N).uniform for deadline / runtime fuzz) run concretely with the real generator, for seeds 0, 1, 42",
    "masked: last cell of SCHEDULER_FINISHED rows (measured wall-clock duration)"]
OUTSIDE = SIM_OUTSIDE + "; hash-order effects inside C extensions; thread scheduling inside Gurobi/CPLEX; fresh-process effects other than string-hash order, wall clock and unseeded generators"
BOUNDS = "2-4 tasks; pools with one and with two resource types; conditionals; deadline variance and runtime variance; Poisson arrivals; seeds {0,1,42}"
EXPLANATION = "self-composition under the engine: trace(run 1) == trace(run 2) cell by cell (z3) on every feasible path"
REQUIRED_LABELS = ["C09:same-number-of-rows", "C09:rows-equal"]


class TwinEnv:
    """Replays the inputs of the first run in the second run; environment values are always fresh."""

    concrete = False

    def __init__(self, env):
        self.env = env
        self.concrete = env.concrete
        self.log = []
        self.pos = 0
        self.mode = "record"

    def start_run(self, k):
        self.mode = "record" if k == 0 else "replay"
        self.pos = 0

    def _io(self, kind, fn):
        if self.mode == "record":
            v = fn()
            self.log.append((kind, v))
            return v
        k, v = self.log[self.pos]
        self.pos += 1
        assert k == kind, f"second run asked for {kind}, first run for {k}"
        return v

    def int(self, name, lo=0, hi=harness.HI):
        return self._io(("int", name), lambda: self.env.int(name, lo, hi))

    def real(self, name, lo=None, hi=None):
        return self._io(("real", name), lambda: self.env.real(name, lo, hi))

    def bool(self, name):
        return self._io(("bool", name), lambda: self.env.bool(name))

    def choose(self, n, name="ch"):
        return self._io(("choose", name, n), lambda: self.env.choose(n, name))

    def env_real(self, name, lo=None):
        return self.env.real("ENV_" + name, lo, None)

    def env_int(self, name, lo=0, hi=2 ** 20):
        return self.env.int("ENV_" + name, lo, hi)

    def __getattr__(self, n):
        return getattr(self.env, n)


class _Clock:
    """module-global `time` of a scheduler module: every reading is a fresh real, non-decreasing."""

    def __init__(self):
        self.last = None

    def time(self):
        env = harness.CUR_ENV
        t = env.env_real("clock", 0)
        if self.last is not None:
            env.assume(t >= self.last)
        self.last = t
        return t


class _OrderedSet:
    """`set` shadow inside simulator.py: iteration order of string sets is an environment choice."""

    reverse = False

    def __call__(self, it=()):
        items = list(dict.fromkeys(it))
        if all(isinstance(x, str) for x in items):
            return sorted(items, reverse=_OrderedSet.reverse)
        return set(items)


class _UnseededRng:
    def poisson(self, lam, size):
        return [harness.CUR_ENV.env_int("poisson") for _ in range(size)]

    def gamma(self, shape, scale, size):
        return [harness.CUR_ENV.env_real("gamma", 0) for _ in range(size)]


class _NpProxy:
    class random:  # noqa: N801
        @staticmethod
        def default_rng(seed=None):
            import numpy

            if seed is not None:
                return numpy.random.default_rng(seed=seed)
            return _UnseededRng()

    def __getattr__(self, n):
        import numpy

        return getattr(numpy, n)


_SETSHADOW = _OrderedSet()


class _EnvSet:
    """`set` shadow inside workload/jobs.py: a set whose iteration order is an environment choice when its elements are
    hashed through a str (str themselves, or Job / Task objects whose __hash__ is the hash of their name): CPython salts
    str hashes per process. Other elements keep insertion order."""

    def __init__(self, it=()):
        self._items = []
        for x in it:
            self.add(x)

    def add(self, x):
        if x not in self._items:
            self._items.append(x)

    def update(self, it):
        for x in it:
            self.add(x)

    def discard(self, x):
        if x in self._items:
            self._items.remove(x)

    def remove(self, x):
        self._items.remove(x)

    def __contains__(self, x):
        return x in self._items

    def __len__(self):
        return len(self._items)

    def __iter__(self):
        key = None
        if self._items and all(isinstance(x, str) for x in self._items):
            key = lambda x: x  # noqa: E731
        elif self._items and all(isinstance(getattr(x, "name", None), str) for x in self._items):
            key = lambda x: x.name  # noqa: E731
        if key is None:
            return iter(list(self._items))
        return iter(sorted(self._items, key=key, reverse=_OrderedSet.reverse))

    def __sub__(self, o):
        return _EnvSet(x for x in self._items if x not in o)

    def __or__(self, o):
        return _EnvSet(list(self._items) + list(o))

    def __and__(self, o):
        return _EnvSet(x for x in self._items if x in o)

    def __eq__(self, o):
        return len(self) == len(o) and all(x in o for x in self._items)

    def __bool__(self):
        return bool(self._items)


class EnvInt(int):
    """concrete replay: an integer that came from the environment (keeps the taint through Random(seed))."""


def _env_int(name, lo=0, hi=2 ** 62):
    v = harness.CUR_ENV.env_int(name, lo, hi)
    return EnvInt(v) if isinstance(v, int) else v


class _EnvRandom:
    """A generator whose seed came from the environment (unseeded, string-hash salt, OS entropy): every
    draw is a fresh environment value, restricted to the documented range of the method."""

    def choices(self, population, weights=None, k=1):
        cand = [p for p, w_ in zip(population, weights or [1] * len(population)) if w_ > 0]
        return [cand[harness.CUR_ENV.env.choose(len(cand), "ENV_draw")]]

    def choice(self, seq):
        seq = list(seq)
        return seq[harness.CUR_ENV.env.choose(len(seq), "ENV_draw")]

    def random(self):
        return 0.0 if harness.CUR_ENV.env.choose(2, "ENV_coin") == 0 else 1.0 - 2 ** -53

    def uniform(self, a, b):
        env = harness.CUR_ENV
        if not isinstance(a, pysym.SNum) and not isinstance(b, pysym.SNum) and a == b:
            return a
        u = env.env_real("uniform")
        env.assume(sand(u >= a, u <= b))
        return u

    def getrandbits(self, k):
        return _env_int("bits")


class _RandomModule:
    """Module-global `random` of utils / workload.tasks: the process-wide generator is environment-dependent
    until the entry point seeds it; a generator seeded with an environment value is environment-dependent."""

    seeded = False

    def Random(self, seed=None):  # noqa: N802
        if seed is None or isinstance(seed, (pysym.SNum, pysym.SBool, EnvInt)):
            return _EnvRandom()
        return _random.Random(seed)

    def seed(self, a=None):
        _RandomModule.seeded = True
        return _random.seed(a)

    def __getattr__(self, n):
        if not _RandomModule.seeded:
            return getattr(_EnvRandom(), n)
        return getattr(_random, n)


def env_hash(x):
    """`hash` shadow: the hash of anything containing a str depends on the per-process salt."""

    def has_str(v):
        return isinstance(v, (str, bytes)) or (isinstance(v, (tuple, frozenset)) and any(has_str(e) for e in v))

    if sys._getframe(1).f_code.co_name == "__hash__":
        return hash(x)  # object hashes must stay integers; they only matter through set iteration order
    if has_str(x) or (isinstance(x, tuple) and any(isinstance(e, (pysym.SNum, EnvInt)) for e in x)):
        return _env_int("strhash")
    return hash(x)


import utils as utils_mod  # noqa: E402
import workers.workers as workers_mod  # noqa: E402

_RMOD = _RandomModule()


def install_env(k):
    for m in (edf_mod, fifo_mod, lsf_mod):
        m.time = _Clock()
        if not stubs.CONCRETE:
            m.int = pysym.sym_int
    sim_mod.set = _SETSHADOW
    jobs_mod.set = _EnvSet
    _OrderedSet.reverse = bool(k)
    jobs_mod.np = _NpProxy()
    if not stubs.CONCRETE:
        jobs_mod.int = pysym.sym_int
        jobs_mod.round = pysym.sym_round
    tasks_mod.random = _RMOD  # seeded draws run for real; generators seeded from the environment do not
    utils_mod.random = _RMOD
    for m in (tasks_mod, jobs_mod, sim_mod, workers_mod, utils_mod):
        m.hash = env_hash


def worlds(tier):
    CPUGPU1 = [[{"CPU": 2, "GPU": 1}]]
    ws = []
    for seed in ((42,) if tier == "quick" else (0, 1, 42)):
        ws += [
            w.W(f"indep2-1cpu-EDF-seed{seed}", w.indep(2), w.C1, "EDF", seed=seed, split=6, weight=40),
            w.W(f"cond2-FIFO-seed{seed}", w.fixed_times(w.cond2()), w.C1, "FIFO", seed=seed, split=6, weight=10),
            w.W(f"cond3-random-branch-prediction-EDF-seed{seed}", w.fixed_times(w.cond3()), w.C1, "EDF", seed=seed, split=6, weight=10, branch_policy="RANDOM",
                tasks=small(("C", "a", "b", "c", "J"))),
            w.W(f"indep2-runtime-variance-LSF-seed{seed}", w.indep(2, deadline=10 ** 6), w.C1, "LSF", seed=seed, variance=40, split=6, weight=10,
                tasks={"T0": {"strategies": [{"rt": 10}]}, "T1": {"strategies": [{"rt": 7}]}}),
            w.W(f"chain2-deadline-variance-via-jobgraph-EDF-seed{seed}", [], w.C1, "EDF", seed=seed, split=6, weight=10, jobgraph={"variance": [10, 60], "n": 2, "concrete_runtimes": True}),
        ]
    ws.append(w.W("indep2-cpu+gpu-pool-EDF-seed42", w.indep(2, release=0, deadline=10 ** 6), CPUGPU1, "EDF", seed=42, split=6, weight=10,
                  tasks={t: {"strategies": [{"rt": "sym", "res": {"CPU": 1, "GPU": 1}}]} for t in ("T0", "T1")}))
    ws.append(w.W("poisson-arrivals-via-jobgraph-EDF-seed42", [], w.C1, "EDF", seed=42, split=6, weight=10, jobgraph={"variance": [0, 0], "n": 1, "poisson": 2, "concrete_runtimes": True}))
    # arrivals drawn by a release policy that was given the seed (as the Alibaba loader does): reproducible for every seed, 0 included
    for seed in ((0,) if tier == "quick" else (0, 1, 42)):
        ws.append(w.W(f"poisson-arrivals-policy-given-the-seed-EDF-seed{seed}", [], w.C1, "EDF", seed=seed, split=6, weight=10,
                      jobgraph={"variance": [0, 0], "n": 1, "poisson": 2, "concrete_runtimes": True, "pass_seed": True, "concrete_start": True}))
    ws.append(w.W("fork-via-jobgraph-siblings-tie-1cpu-EDF-seed42", [], w.C1, "EDF", seed=42, split=6, weight=10, jobgraph={"variance": [0, 0], "n": 3, "fork": True, "concrete_runtimes": True}))
    for kind in ("gamma", "fixed_gamma"):
        ws.append(w.W(f"{kind}-arrivals-policy-given-the-seed-EDF-seed1", [], w.C1, "EDF", seed=1, split=6, weight=10,
                      jobgraph={"variance": [0, 0], "n": 1, "poisson": 2, "concrete_runtimes": True, "pass_seed": True, "concrete_start": True, "policy_kind": kind}))
    # the real entry point (main.main) on one of the repository's profiles, under each log-file mode
    for mode in ("write", "append"):
        ws.append({"name": f"entry-point-main-EDF-log_file_mode-{mode}-seed7", "entry": {"argv": ["--execution_mode=yaml", "--workload_profile_path={REPO}/profiles/workload/edf_adversarial.yaml",
                   "--worker_profile_path={REPO}/profiles/workers/edf_adversarial.yaml", "--scheduler=EDF", "--scheduler_runtime=0", f"--log_file_mode={mode}", "--log_level=error"]},
                   "seed": 7, "graphs": [], "cluster": w.C1, "policy": "EDF", "split": 4, "weight": 5})
    return ws


def build_from_jobgraph(env, spec):
    """Workload instantiated by the real JobGraph.generate_task_graphs (deadline fuzz with the seeded
    generator; Poisson arrivals with whatever generator the release policy built)."""
    jg_spec = spec["jobgraph"]
    n = jg_spec["n"]
    jobs = []
    for i in range(n):
        rt = 10 + 3 * i if jg_spec.get("concrete_runtimes") else env.int(f"rt_J{i}", 1, 2 ** 20)
        prof = WorkProfile(name=f"p{i}", execution_strategies=ExecutionStrategies([
            ExecutionStrategy(resources=Resources({Resource(name="CPU", _id="any"): 1}, _logger=stubs.NULL), batch_size=1, runtime=EventTime(rt, US))]))
        jobs.append(Job(name=f"J{i}", profile=prof))
    if jg_spec.get("poisson"):
        start = EventTime(5 if jg_spec.get("concrete_start") else env.int("start", 0, 2 ** 20), US)
        kind = jg_spec.get("policy_kind", "poisson")
        if jg_spec.get("pass_seed") and kind == "gamma":
            pol = JobGraph.ReleasePolicy.gamma(rate=0.01, coefficient=2.0, num_invocations=jg_spec["poisson"], start=start, rng_seed=spec["seed"])
        elif jg_spec.get("pass_seed") and kind == "fixed_gamma":
            pol = JobGraph.ReleasePolicy.fixed_gamma(variable_arrival_rate=0.01, base_arrival_rate=0.01, coefficient=2.0, num_invocations=jg_spec["poisson"] + 1, start=start, rng_seed=spec["seed"])
        elif jg_spec.get("pass_seed"):
            pol = JobGraph.ReleasePolicy.poisson(rate=0.01, num_invocations=jg_spec["poisson"], start=start, rng_seed=spec["seed"])
        else:
            pol = JobGraph.ReleasePolicy.poisson(rate=0.01, num_invocations=jg_spec["poisson"], start=start)
    else:
        pol = JobGraph.ReleasePolicy.fixed(period=EventTime(env.int("period", 1, 2 ** 20), US), num_invocations=2, start=EventTime(env.int("start", 0, 2 ** 20), US))
    if jg_spec.get("fork"):  # J0 -> {J1, J2}: the order of the siblings decides ties
        edges = {jobs[0]: [jobs[1], jobs[2]], jobs[1]: [], jobs[2]: []}
    else:
        edges = {jobs[i]: ([jobs[i + 1]] if i + 1 < n else []) for i in range(n)}
    jg = JobGraph(name="JG", jobs=edges, release_policy=pol, deadline_variance=tuple(jg_spec["variance"]))
    wl = Workload.from_job_graphs({"JG": jg})
    wl.populate_task_graphs(EventTime(2 ** 40, US))
    return wl


def one_run(tw, spec, k):
    tw.start_run(k)
    install_env(k)
    harness.CUR_ENV = tw
    # process start-up: modules are imported (the first EventTime creates the class-level generator) before
    # the entry point seeds the process-wide generator
    _RandomModule.seeded = False
    EventTime._rng = None
    EventTime(1, US)
    _RMOD.seed(spec["seed"])
    stubs.CSV.rows.clear()
    harness.CUR_ENV = tw
    if spec.get("entry"):
        return entry_point_run(tw, spec)
    if spec.get("jobgraph"):
        s2 = dict(spec, graphs=[])
        W = simworld.build(tw, s2)
        wl = build_from_jobgraph(tw, spec)
        W.sim._workload_loader = simworld.Loader(wl)
        W.tasks = {}
    else:
        W = simworld.build(tw, spec)
    mon = simworld.Monitor(W, [], simworld.default_budget(spec) + 40)
    simworld.MON = mon
    try:
        W.sim.simulate()
    finally:
        simworld.MON = None
    return list(stubs.CSV.rows)


def entry_point_run(tw, spec):
    """The real main.main() on one of the repository's own profiles: flag parsing, seeding, loaders, Simulator.
    The process-wide generator is in its start-up (environment-dependent) state when main() is entered."""
    import main as M

    stubs.install()  # null / capturing loggers for the modules main imported
    M.setup_logging = stubs._setup_logging
    M.setup_csv_logging = stubs._setup_csv_logging
    M.random = _RMOD
    _RandomModule.seeded = False  # one_run() seeded it the way the other worlds' harness does: undo, main() has to do it
    import random as _r

    _r.seed(_ENTRY_SALT[0])  # "fresh process": the real generator starts from an arbitrary state that differs between the two runs
    _ENTRY_SALT[0] += 1
    if M.FLAGS.is_parsed():
        M.FLAGS.unparse_flags()
    M.FLAGS(["main.py"] + [a.replace("{REPO}", harness.REPO) for a in spec["entry"]["argv"]] + [f"--random_seed={spec['seed']}"])
    stubs.CSV.rows.clear()
    M.main(None)
    return [r for r in stubs.CSV.rows if not r.startswith("input_flag,")]


_ENTRY_SALT = [1000]


def run(env, spec):
    tw = TwinEnv(env)
    old = harness.CUR_ENV
    try:
        rows1 = one_run(tw, spec, 0)
        rows2 = one_run(tw, spec, 1)
    finally:
        harness.CUR_ENV = old
        tasks_mod.random = stubs.RandomProxy()
        utils_mod.random = _random
        _RandomModule.seeded = True
    eng = None if env.concrete else env.eng

    def cell(x):
        if eng is not None:
            t = eng.untoken(x)
            if t is not None:
                return t
        return x

    env.require("C09:same-number-of-rows", len(rows1) == len(rows2), f"{len(rows1)} vs {len(rows2)}")
    for i, (a, b) in enumerate(zip(rows1, rows2)):
        ca, cb = a.split(","), b.split(",")
        if len(ca) > 1 and ca[1] == "SCHEDULER_FINISHED":
            ca, cb = ca[:5], cb[:5]  # the measured wall-clock duration is masked
        conds = [len(ca) == len(cb)]
        for x, y in zip(ca, cb):
            vx, vy = cell(x), cell(y)
            conds.append(vx == vy)
        kind = ca[1] if len(ca) > 1 else "?"
        env.require("C09:rows-equal", sand(*conds), f"row {i} ({kind}): {a[:120]} | {b[:120]}")
    env.observe("rows", len(rows1))
    harness.finish_path(env)


def signature(world, v, failures):
    info = v.get("info") or ""
    if "WORKER_POOL_UTILIZATION" in info:
        return "utilization-rows-follow-string-hash-order"
    if world.get("jobgraph", {}).get("poisson") and not world["jobgraph"].get("pass_seed"):
        return "poisson-gamma-arrivals-use-an-unseeded-generator"
    return v["label"]


if __name__ == "__main__":
    import checks.c09 as _m

    sys.exit(harness.main(_m))
