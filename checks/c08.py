"""C08 -- the CSV trace and end-of-run counters tell the truth about the run."""
import sys

from vlib import harness, simworld
from vlib import worlds as w
from vlib.simcheck import RT3, SIM_ASSUMPTIONS, SIM_OUTSIDE, small

ID = "C08"
ORACLES = ["C08"]
ANCHORS = [("simulator.py", "Simulator.__handle_task_finished"), ("simulator.py", "Simulator.__handle_scheduler_finish"),
           ("simulator.py", "Simulator.__handle_task_cancellation"), ("workload/workload.py", "Workload.get_cancelled_task_graphs"),
           ("data/csv_reader.py", "CSVReader.parse_events"), ("data/csv_types.py", "Task.update_finish")]
LIMITS = {"samples_per_job": 1, "validate_per_job": 1}
CRASH_IS_VIOLATION = False
ASSUMPTIONS = SIM_ASSUMPTIONS + ["the CSV logger is replaced by a row-capturing logger; numeric cells that depend on symbolic inputs are rendered as tokens that map back to their z3 terms",
                                  "data.csv_reader / data.csv_types see int/float shadows that turn a token back into its term (identity on ordinary strings)"]
OUTSIDE = SIM_OUTSIDE + "; analyze.py, plotting, Chrome-trace export; WORKER_POOL_UTILIZATION rows"
BOUNDS = "2-5 tasks; runs that finish, miss deadlines (symbolic deadlines incl. completion == deadline), cancel (deadline enforcement, untaken branches, dropped skips), and time out"
EXPLANATION = ("real Simulator.simulate() on all feasible paths; every SIMULATOR_END counter, every TASK_RELEASE / TASK_PLACEMENT / TASK_FINISHED / TASK_CANCEL / MISSED_DEADLINE / SCHEDULER_* cell is compared (z3) with what the monitor observed; "
               "then the real CSVReader.parse_events runs on the captured rows and its reconstructed tasks / graphs are compared with the run")
REQUIRED_LABELS = ["C08:summary-finished-tasks", "C08:summary-cancelled-tasks", "C08:summary-missed-task-deadlines", "C08:summary-finished-graphs", "C08:summary-cancelled-graphs",
                   "C08:release-row-true", "C08:placement-row-true", "C08:finish-row-true", "C08:miss-row-iff-late", "C08:cancel-row-true", "C08:scheduler-finished-row-placed",
                   "C08:scheduler-finished-row-unplaced", "C08:reader-accepts-trace", "C08:reader-reconstructs-task"]


def worlds(tier):
    hv = {"max_delta": 2}
    ws = [
        w.W("indep2-1cpu-EDF-symbolic-deadlines", w.indep(2), w.C1, "EDF", split=6, weight=40),
        w.W("indep3-1cpu-tie-early-late", [w.G(f"G{i}", [f"T{i}"], [], release=0, deadline="sym") for i in range(3)], [[{"CPU": 3}]], "FIFO", split=6, weight=20,
            tasks={f"T{i}": {"strategies": [{"rt": 5}]} for i in range(3)}),
        w.W("indep2-EDF-enforce", w.indep(2), w.C1, "EDF", enforce_deadlines=True, split=6, weight=40),
        w.W("chain2-FIFO-enforce", w.chain(2), w.C1, "FIFO", enforce_deadlines=True, split=5),
        w.W("cond2-EDF", w.fixed_times(w.cond2()), w.C1, "EDF", split=6, weight=10),
        w.W("cond3-plus-plain-graph-EDF-enforce", w.cond3(release=0, deadline="sym") + [w.G("H", ["P"], [], release=0, deadline="sym")], w.C2, "EDF", enforce_deadlines=True, split=8, weight=60,
            tasks=dict(small(("C", "a", "b", "c", "J", "P")))),
        w.W("fork-2cpu-EDF-per-task-deadlines", w.fork(release=0), w.C2, "EDF", split=6, weight=30,
            tasks={"A": {"strategies": [{"rt": RT3}]}, "B": {"strategies": [{"rt": RT3}], "deadline": "sym"}, "C": {"strategies": [{"rt": RT3}], "deadline": "sym"}}),
        w.W("indep2-2cpu-EDF-preemptive-second-arrives-while-first-runs", [w.G("G0", ["T0"], [], release=0, deadline=10 ** 6), w.G("G1", ["T1"], [], release=["sym", 0, 3], deadline=10 ** 6)], w.C2, "EDF",
            preemptive=True, split=6, weight=20, tasks=small(("T0", "T1"))),
        w.W("join-2cpu-LSF", w.join(), w.C2, "LSF", split=6, weight=20),
        w.W("chain2-havoc-drop-skipped", w.fixed_times(w.chain(2)), w.C1, "HAVOC", split=6, drop_skipped=True, havoc=dict(hv, release_taskgraphs=True), tasks=small(("T0", "T1"))),
        w.W("indep2-havoc-unplaced-then-placed", w.fixed_times(w.indep(2)), w.C2, "HAVOC", split=6, havoc=dict(hv, future=False, first_pool_only=True), tasks=small(("T0", "T1"))),
        w.W("chain2-EDF-symbolic-timeout-and-deadline", w.chain(2, release=0), w.C1, "EDF", timeout=["sym", 0, 12], split=7, weight=60, tasks=small(("T0", "T1"))),
        w.W("indep2-EDF-symbolic-timeout", w.indep(2, deadline=10 ** 6), w.C1, "EDF", timeout="sym", split=7, weight=60),
    ]
    if tier == "thorough":
        ws += [
            w.W("cond2-EDF-symbolic-timeout", w.fixed_times(w.cond2()), w.C1, "EDF", timeout=["sym", 0, 40], split=8, weight=100, tasks=small(("C", "a", "b", "J"))),
            w.W("diamond-2cpu-EDF-enforce", w.diamond(), w.C2, "EDF", enforce_deadlines=True, split=8, weight=300),
            w.W("cond-uneven-FIFO", w.fixed_times(w.cond_uneven()), w.C2, "FIFO", split=7, weight=60),
            w.W("cond3-EDF-symbolic-timeout", w.fixed_times(w.cond3()), w.C2, "EDF", timeout=["sym", 0, 40], split=9, weight=300, tasks=small(("C", "a", "b", "c", "J"))),
            w.W("join-2cpu-EDF-per-task-deadlines-enforce", w.join(release=0), w.C2, "EDF", enforce_deadlines=True, split=8, weight=300,
                tasks={"A": {"strategies": [{"rt": RT3}], "deadline": "sym"}, "B": {"strategies": [{"rt": RT3}], "deadline": "sym"}, "C": {"strategies": [{"rt": RT3}], "deadline": "sym"}}),
            w.W("chain3-havoc-drop-skipped", w.fixed_times(w.chain(3)), w.C1, "HAVOC", split=9, drop_skipped=True, havoc=dict(hv, release_taskgraphs=True), tasks=small(("T0", "T1", "T2")), weight=300),
            w.W("fork-havoc-cancel", w.fixed_times(w.fork()), w.C2, "HAVOC", split=8, havoc=dict(hv, max_cancels=1, max_unplaced=0, future=False, first_pool_only=True),
                tasks=small(("A", "B", "C")), weight=100),
        ]
    return ws


def run(env, world):
    simworld.run(env, world, ORACLES)


def signature(world, v, failures):
    if v["label"] == "C08:scheduler-finished-row-unplaced":
        return "scheduler-finished-row-always-reports-zero-unplaced"
    if v["label"] == "C08:reader-accepts-trace" and "[unfinished-graph-with-cancelled-branch" in str(v.get("info")):
        return "reader-rejects-trace-of-run-that-ends-with-an-unfinished-graph-that-has-a-cancelled-branch"
    return v["label"]


if __name__ == "__main__":
    import checks.c08 as _m

    sys.exit(harness.main(_m))
