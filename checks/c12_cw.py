"""C12 (Clockwork part) -- whole runs of the real Clockwork policy: a hopeless request is cancelled, never
placed; every request that completes does so by its deadline (exact runtimes)."""
import sys

import checks.c15 as c15
from vlib import harness, simworld

ID = "C12"
ORACLES = ["C12", "C15"]
ANCHORS = [("schedulers/clockwork_scheduler.py", "ClockworkScheduler.run_admission"), ("simulator.py", 943, 951)]
LIMITS = c15.LIMITS
CRASH_IS_VIOLATION = False
ASSUMPTIONS = c15.ASSUMPTIONS
OUTSIDE = c15.OUTSIDE
BOUNDS = c15.BOUNDS
EXPLANATION = c15.EXPLANATION
REQUIRED_LABELS = ["C12:completed-by-deadline", "C15:hopeless-request-not-placed", "C15:cancel-only-if-hopeless"]


def worlds(tier):
    ws = [x for x in c15.worlds(tier) if x.get("kind") != "direct"]  # whole runs only (the direct-call world belongs to C15)
    return [x for x in ws if x["name"].startswith(("2req", "4req"))] if tier == "quick" else ws


def run(env, world):
    simworld.run(env, world, ORACLES)


if __name__ == "__main__":
    import checks.c12_cw as _m

    sys.exit(harness.main(_m))
