"""C05 -- every simulation terminates, and feasible work is always finished."""
import sys

from vlib import harness, simworld
from vlib import worlds as w
from vlib.simcheck import RT3, SIM_ASSUMPTIONS, SIM_OUTSIDE, small

ID = "C05"
ORACLES = ["C05"]
ANCHORS = [("simulator.py", 1718, 1981), ("simulator.py", 1113, 1136), ("simulator.py", 622, 723), ("simulator.py", 467, 512),
           ("workload/tasks.py", 330, 337)]
LIMITS = {"samples_per_job": 1, "validate_per_job": 1}
CRASH_IS_VIOLATION = True  # a run that raises never reaches its end event
ASSUMPTIONS = SIM_ASSUMPTIONS + ["loop budget per world = 40*(#tasks+2) clock steps (+14 per microsecond of bounded retry horizon); a path exceeding it is replayed concretely with the same budget and reported as non-termination only if it reproduces"]
OUTSIDE = SIM_OUTSIDE + "; closed-loop release"
BOUNDS = "1-3 tasks; zero-length tasks, equal-time releases, symbolic loop timeout, scheduler frequency / delay / run-at-worker-free, heterogeneous workers with 1-us placement retries, non-zero scheduler runtime"
EXPLANATION = ("real Simulator.simulate() on all feasible paths with a step budget; oracles (z3): SIMULATOR_END handled, end <= loop_timeout; for work-conserving worlds "
               "(EDF/FIFO/LSF, no enforcement, every task fits an empty worker) all tasks COMPLETED and end < timeout; at the end no RELEASED task fits a worker (own ledger) unless the timeout struck")
REQUIRED_LABELS = ["C05:reaches-end-event", "C05:ends-by-timeout", "C05:feasible-work-completes", "C05:ends-before-timeout"]
T2 = ("T0", "T1")


def worlds(tier):
    ws = []
    for pol in ("EDF", "FIFO", "LSF"):
        ws.append(w.W(f"two-indep-1cpu-{pol}", w.indep(2), w.C1, pol, work_conserving=True, split=6, weight=50))
        ws.append(w.W(f"chain2-1cpu-{pol}", w.chain(2), w.C1, pol, work_conserving=True, split=4, weight=5))
    ws += [
        w.W("one-task-zero-runtime-EDF", w.indep(1), w.C1, "EDF", work_conserving=True, rt_lo=0),
        w.W("two-indep-1cpu-EDF-symbolic-timeout", w.indep(2, deadline=10 ** 6), w.C1, "EDF", timeout="sym", split=7, weight=80),
        w.W("two-indep-hetero-workers-symdemand-EDF", w.indep(2, release=0), w.HETERO, "EDF", split=6, retry_loops=True, work_conserving=True,
            assume=["fits-somewhere"], tasks={t: {"strategies": [{"rt": RT3, "res": {"CPU": ["sym", 0, 3]}}]} for t in T2}, weight=10),
        w.W("wide-parent-retried-on-hetero-workers-while-its-child-gets-scheduled-EDF",
            [w.G("Ga", ["Ta"], [], release=0, deadline="sym"), w.G("Gz", ["Tz", "C"], [("Tz", "C")], release=0, deadline="sym")], w.HETERO, "EDF", split=7, retry_loops=True,
            work_conserving=True, weight=40, tasks={"Ta": {"strategies": [{"rt": ["sym", 1, 6], "res": {"CPU": 1}}]}, "Tz": {"strategies": [{"rt": RT3, "res": {"CPU": 2}}]},
                                                    "C": {"strategies": [{"rt": RT3, "res": {"CPU": 1}}]}}),
        w.W("two-indep-1cpu-FIFO-frequency", w.indep(2, deadline=10 ** 6), w.C1, "FIFO", freq="sym", work_conserving=True, split=7, weight=80),
        w.W("two-indep-1cpu-LSF-delay", w.indep(2, deadline=10 ** 6), w.C1, "LSF", delay="sym", work_conserving=True, split=7, weight=30),
        w.W("chain2-1cpu-EDF-run_at_worker_free", w.chain(2), w.C1, "EDF", run_at_worker_free=True, work_conserving=True, split=4),
        w.W("five-releases-two-of-them-after-the-loop-timeout-EDF", [w.G(f"G{i}", [f"T{i}"], [], release=r, deadline=10 ** 6) for i, r in enumerate((20, 40, 40, 700, 900))], w.C1, "EDF",
            timeout=500, must_complete=["T0", "T1", "T2"], split=5, weight=10, tasks={f"T{i}": {"strategies": [{"rt": ["sym", 1, 8]}]} for i in range(5)}),
        w.W("chain2-child-with-its-own-release-time-EDF", w.chain(2), w.C1, "EDF", work_conserving=True, split=5, weight=10, tasks={"T1": {"release": "sym"}}),
        w.W("second-graph-released-at-a-time-written-in-milliseconds-EDF", [w.G("G0", ["T0"], [], release=0, deadline=10 ** 6), dict(w.G("G1", ["T1"], [], release=["sym", 0, 2], deadline=10 ** 6), release_unit="MS")],
            w.C1, "EDF", work_conserving=True, split=5, weight=10, tasks={"T0": {"strategies": [{"rt": ["sym", 1, 400]}]}, "T1": {"strategies": [{"rt": ["sym", 1, 9]}]}}),
        w.W("join3-2cpu-FIFO", w.fixed_times(w.join()), w.C2, "FIFO", work_conserving=True, split=6),
        w.W("cond2-1cpu-EDF", w.fixed_times(w.cond2()), w.C1, "EDF", split=6, weight=30),
        w.W("one-task-EDF-scheduler-runtime", w.indep(1), w.C1, "EDF", sched_runtime=["sym", 0, 5], work_conserving=True),
        w.W("one-task-havoc-scheduler-runtime", w.indep(1, release=["sym", 0, 6], deadline=10 ** 6), w.C1, "HAVOC", sched_runtime=["sym", 0, 4],
            havoc={"max_delta": 2, "max_unplaced": 0}, tasks=small(("T0",)), split=5),
        w.W("two-indep-havoc-planahead", w.fixed_times(w.indep(2)), w.C1, "HAVOC", havoc={"max_delta": 2}, tasks=small(T2), split=6),
        w.W("two-indep-1cpu-EDF-enforce-deadlines", w.indep(2), w.C1, "EDF", enforce_deadlines=True, split=6, weight=50),
    ]
    if tier == "thorough":
        ws += [
            w.W("three-indep-1cpu-EDF", w.indep(3, deadline=10 ** 6), w.C1, "EDF", work_conserving=True, split=9, weight=600),
            w.W("two-indep-zero-runtime-FIFO", w.indep(2, deadline=10 ** 6), w.C1, "FIFO", work_conserving=True, rt_lo=0, split=6, weight=50),
            w.W("two-indep-1cpu-EDF-freq+delay+timeout", w.indep(2, deadline=10 ** 6), w.C1, "EDF", freq="sym", delay="sym", timeout="sym", split=9, weight=600),
            w.W("diamond-2cpu-LSF", w.fixed_times(w.diamond()), w.C2, "LSF", work_conserving=True, split=8, weight=100),
            w.W("two-indep-havoc-scheduler-runtime", w.indep(2, release=["sym", 0, 4], deadline=10 ** 6), w.C1, "HAVOC", sched_runtime=["sym", 0, 3],
                havoc={"max_delta": 2, "max_unplaced": 0, "future": False}, tasks=small(T2), split=8, weight=200),
            w.W("three-indep-hetero-EDF", w.indep(3, release=0), w.HETERO, "EDF", split=9, retry_loops=True, work_conserving=True, assume=["fits-somewhere"],
                tasks={t: {"strategies": [{"rt": RT3, "res": {"CPU": ["sym", 1, 2]}}]} for t in ("T0", "T1", "T2")}, weight=400),
        ]
    return ws


def run(env, world):
    simworld.run(env, world, ORACLES)


def signature(world, v, failures):
    lab, a, info = v["label"], v["assignment"], v.get("info") or ""
    if lab == "C05:terminates" and any(k.startswith("rt_") and val == 0 for k, val in a.items()):
        return "zero-runtime-task-never-finishes"
    if lab == "crash:ValueError" and "occurred in the past" in info and world.get("policy") in ("EDF", "FIFO", "LSF") and world.get("sched_runtime", 0) != 0:
        return "greedy-policy-placement-rejected-as-past-with-nonzero-scheduler-runtime"
    if world.get("sched_runtime", 0) != 0 and lab in ("C05:no-runnable-work-left-at-end", "C05:feasible-work-completes"):
        return "task-released-during-scheduler-run-is-never-offered-again"
    return lab


if __name__ == "__main__":
    import checks.c05 as _m

    sys.exit(harness.main(_m))
