"""C05 -- every simulation terminates, feasible work is always finished."""
import sys

from vlib import harness, simworld

ID = "C05"
ANCHORS = [("simulator.py", 1718, 1981), ("simulator.py", 1113, 1136), ("simulator.py", 467, 512), ("workload/tasks.py", 330, 337)]
LIMITS = {"samples_per_job": 1, "validate_per_job": 1}
ORACLES = ["C05"]


def g_indep(n, **k):
    return [dict({"name": f"G{i}", "tasks": [f"T{i}"], "edges": [], "release": "sym", "deadline": "sym"}, **k) for i in range(n)]


def g_chain(n, **k):
    ts = [f"T{i}" for i in range(n)]
    return [dict({"name": "G0", "tasks": ts, "edges": [[ts[i], ts[i + 1]] for i in range(n - 1)], "release": "sym", "deadline": "sym"}, **k)]


def worlds(tier):
    ws = []
    for pol in ("EDF", "FIFO", "LSF"):
        ws.append({"name": f"one-task-{pol}", "graphs": g_indep(1), "cluster": [[{"CPU": 1}]], "policy": pol, "work_conserving": True,
                   "rt_lo": 0})
        ws.append({"name": f"two-indep-1cpu-{pol}", "graphs": g_indep(2), "cluster": [[{"CPU": 1}]], "policy": pol, "work_conserving": True,
                   "split": 6, "weight": 50, "rt_lo": 1})
        ws.append({"name": f"chain2-{pol}", "graphs": g_chain(2), "cluster": [[{"CPU": 1}]], "policy": pol, "work_conserving": True,
                   "split": 4, "weight": 10, "rt_lo": 1})
    return ws


def run(env, w):
    simworld.run(env, w, ORACLES)


def signature(world, v, failures):
    if v["label"] == "C05:terminates" and world.get("rt_lo", 1) == 0:
        a = v["assignment"]
        if any(k.startswith("rt_") and val == 0 for k, val in a.items()):
            return "zero-runtime-task-never-finishes"
    return v["label"]


if __name__ == "__main__":
    import checks.c05 as _m

    sys.exit(harness.main(_m))
