"""C20 -- STRL compilation (C++): every solution of the generated model is a valid space-time allocation.

The repository's C++ compiler (Expression / CapacityConstraint / SolverModel / OptimizationPasses) is built
on every run into a stand-alone driver (sequential TBB shim, no solver back-end).  For every tree of a
bounded family the driver builds the expression with the real constructors, runs the selected passes and
the real parse(); the dumped model is translated to z3 and the properties are asserted over ALL of its
solutions.  The hand-written read-back relation is validated on every solver model by injecting the values
into the real model and calling the real populateResults() (driver replay)."""
import itertools
import os
import subprocess
import sys
import time

from z3 import z3

from vlib import mipcheck, opt

ID = "C20"
HERE = os.path.dirname(os.path.dirname(os.path.abspath(__file__)))
DRIVER = os.path.join(HERE, "strl", "build", "strl_driver")
BOUNDS = ("trees of 2-3 tasks; a task is a Max over 1-3 Choose leaves, a single Choose, a WindowedChoose (alone or under a Max), a MalleableChoose or an Allocation (running task); tasks are combined by Objective, Min, LessThan (also nested, over Min, over an Allocation), Scale, "
          "and a Max shared by two parents; 1-2 partitions of quantity 1-3, numRequired 1-2, durations 1-3, times 0-10, now in {0, one grid step (unit grid), one past a grid point (coarse grids: the first option is then in the past)}, discretisation 1-3 with starts on the grid, every subset of {critical-path, capacity-constraint-purge} passes; the dynamic discretisation pass (maxDiscretization 2, 3, 5 on the unit grid) on the shapes built from Max-over-Choose")
OUTSIDE = ("the adaptive discretisation of the Python front-end; finerDiscretizationAtPrevSolution; trees with more than 3 tasks / 9 leaves; start times off the discretisation grid (the Python front-end only emits multiples of the discretisation); zero or negative utilities; "
           "WindowedChoose windows that begin before `now`; Min whose children are all Allocations; solver back-ends (Gurobi/CPLEX/OR-tools translation of the SolverModel is not compiled)")
ASSUMPTIONS = ["a SolverModel variable without an explicit lower bound is >= 0 and one without an upper bound is unbounded above, as GurobiSolver::translateVariable and CPLEXSolver::translateVariable do (the solver back-ends themselves are not compiled)",
               "the C++ library is compiled unchanged with g++ -std=c++20 -fno-access-control against a sequential shim of tbb::{concurrent_hash_map, concurrent_vector, parallel_for, blocked_range, task_group}",
               "read-back relation (leaf satisfied <=> indicator = 1 and every ancestor has utility; allocation of a leaf = its partition variables over [start, start+duration) resp. one grid slot for MalleableChoose) is validated on every z3 model used, through the driver's replay mode (real populateResults())",
               "reference semantics of STRL (checks/c20.py: ref()) written from the operator definitions: Choose = exactly numRequired units for the whole duration, Max = at most one child, Min = all or none, LessThan = both or neither and first ends before second starts, Scale = multiply utility, Objective = sum, Allocation = fixed usage with no utility"]
ENGINE = ("strl2smt: /repo's C++ STRL library is compiled on every run (g++, sequential TBB shim) into a driver that builds each tree with the real constructors, runs the real passes and parse(), "
          "and dumps the SolverModel; the dump is translated to z3 and the properties are asserted over ALL its solutions; every z3 model used is read back by the real populateResults()")
EXPLANATION = "all-solutions SMT queries over the model emitted by the real C++ STRL compiler; optimum compared with an independent reference (plain-solver maximisation on both; z3.Optimize is not trusted, see vlib/opt.py)"
REQUIRED_LABELS = ["C20:capacity-within-quantity", "C20:choose-gets-exactly-its-demand", "C20:max-at-most-one-child", "C20:min-all-children", "C20:lessthan-ordered", "C20:lessthan-both-or-neither",
                   "C20:utility-equals-objective", "C20:optimum-equals-reference", "C20:passes-preserve-optimum", "C20:coarser-grid-only-loses-utility", "C20:readback-matches-populateResults",
                   "C20:witness-some-leaf-can-be-satisfied", "C20:every-model-outcome-is-valid", "C20:every-valid-outcome-is-a-model-solution"]
LEAVES = ("CHOOSE", "WCHOOSE", "MCHOOSE", "ALLOC")


def setup():
    """(Re)build the driver from /repo's current sources."""
    r = subprocess.run([os.path.join(HERE, "strl", "build.sh")], capture_output=True, text=True)
    if r.returncode != 0 or not os.path.exists(DRIVER):
        print(r.stdout[-2000:], r.stderr[-3000:])
        print(f"HARNESS-ERROR [{ID}]: the STRL driver does not build against the current sources")
        raise SystemExit(3)


# ------------------------------------------------------------------------------------------ trees

SHAPES = ["wide", "indep", "min", "lt", "scale", "shared", "lt_single", "lt_first_single", "lt_alloc", "lt_min", "lt_min_alloc", "lt_nested", "lt_nested_left", "wchoose", "lt_wchoose", "mchoose", "alloc_cap"]


def instances(tier):
    out = []
    quick = tier == "quick"
    part_sets = [[2], [1], [1, 2]] if quick else [[1], [2], [3], [1, 2], [2, 2], [1, 1]]
    for shape in SHAPES:
        for parts in part_sets:
            for disc in (1, 2) if quick else (1, 2, 3):
                for variant in (0, 1, 2, 3) if quick else range(6):
                    for passes in ((0, 0), (1, 1)) if quick else ((0, 0), (1, 0), (0, 1), (1, 1)):
                        if quick and (variant + disc + len(parts) + passes[0]) % 2 and shape not in ("lt", "lt_alloc", "lt_single", "lt_first_single", "lt_nested_left", "wchoose", "lt_wchoose", "lt_min_alloc", "mchoose"):
                            continue
                        out.append({"name": f"{shape}-p{''.join(map(str, parts))}-d{disc}-v{variant}-cp{passes[0]}purge{passes[1]}", "shape": shape, "parts": parts, "disc": disc,
                                    "variant": variant, "passes": list(passes)})
    for shape in ("indep", "min", "lt", "lt_min", "lt_nested", "shared", "alloc_cap", "lt_alloc", "wide"):
        for parts in part_sets:
            for variant in (0, 1, 2):  # now = 0: with discretisation 1 the front-end emits no option before `now`
                for dyn in (2, 3) if quick else (2, 3, 5):
                    for passes in ((0, 0),) if quick else ((0, 0), (1, 1)):
                        out.append({"name": f"{shape}-p{''.join(map(str, parts))}-d1-v{variant}-cp{passes[0]}purge{passes[1]}-dyn{dyn}", "shape": shape, "parts": parts, "disc": 1,
                                    "variant": variant, "passes": list(passes), "dyn": dyn})
    return out


def make_tree(spec, fine=False):
    """Returns (partitions {id: qty}, nodes {idx: dict}, edges, root, now, granularity).
    With fine=True the same logical problem on the unit grid (every integer start up to each task's last start)."""
    shape, parts, disc, var = spec["shape"], spec["parts"], spec["disc"], spec["variant"]
    P = {i + 1: q for i, q in enumerate(parts)}
    pids = sorted(P)
    nodes, edges = {}, []
    nid = itertools.count()
    g = 1 if fine else disc

    def add(kind, **k):
        i = next(nid)
        nodes[i] = dict(kind=kind, **k)
        return i

    def choose(name, req, dur, s, util):
        return add("CHOOSE", name=name, req=req, start=s, dur=dur, util=util, parts=pids)

    def task(name, req, dur, starts, util, single=False):
        """starts are grid indices (counted from the first grid point the front-end would emit, floor(now / disc) * disc)"""
        ts = [(s + base) * disc for s in starts]
        if fine:
            ts = list(range(min(ts), max(ts) + 1))
        if len(ts) == 1:
            return choose(name, req, dur, ts[0], util)
        m = add("MAX", name=f"max_{name}")
        for s in ts:
            edges.append((m, choose(name, req, dur, s, util)))
        return m

    def wchoose(name, req, dur, s0, s1, util, off=0):
        # off > 0: the window opens between two grid points (the first option is the next grid point)
        return add("WCHOOSE", name=name, req=req, start=s0 * disc + (off if disc > 1 and not fine else 0), dur=dur, end=s1 * disc, gran=g, util=util, parts=pids)

    totalq = sum(P.values())
    reqA = 1 + (var % 2 if totalq > 1 else 0)
    reqB = 1 if totalq < 3 else 1 + (var // 2) % 2
    durA, durB, durC = 1 + var % 3, 2, 1 + (var + 1) % 2
    # variants >= 3: a later `now`, one past a grid point when the grid is coarse -- the front-end emits options from
    # floor(now / disc) * disc, so only then the first option of every task lies in the past (a no-utility leaf)
    base = 0 if var < 3 else 1
    now = 0 if var < 3 else (disc if disc == 1 else disc + 1)
    if shape in ("lt_alloc", "alloc_cap"):  # a task has been running since 0: the tree is compiled at time 0
        base, now = 0, 0
    root = add("OBJ", name="obj")
    if shape == "indep":
        a = task("A", reqA, durA, [0, 1], 1)
        b = task("B", reqB, durB, [0, 2], 2)
        c = task("C", 1, durC, [1], 1)
        edges += [(root, a), (root, b), (root, c)]
    elif shape == "wide":
        a = task("A", reqA, durA, [0, 1, 2, 3, 4, 5], 1)
        b = task("B", reqB, durB, [0, 1, 2, 3, 4], 2)
        c = task("C", totalq, 1, [2, 3], 1)
        edges += [(root, a), (root, b), (root, c)]
    elif shape == "min":
        mn = add("MIN", name="min1")
        a = task("A", reqA, durA, [0, 1], 1)
        b = task("B", reqB, durB, [0, 1, 2], 1)
        edges += [(mn, a), (mn, b), (root, mn)]
        c = task("C", 1, durC, [0], 1)
        edges.append((root, c))
    elif shape == "lt":
        lt = add("LT", name="lt1")
        a = task("A", reqA, durA, [0, 1], 1)
        b = task("B", reqB, durB, [1, 2, 3], 1)
        edges += [(lt, a), (lt, b), (root, lt)]
        c = task("C", 1, durC, [0, 2], 1)
        edges.append((root, c))
    elif shape == "lt_single":
        # parent and child each have a single fixed option (the front-end returns the bare Choose then)
        lt = add("LT", name="lt1")
        a = task("A", reqA, durA, [1], 1, single=True)
        b = task("B", reqB, durB, [1 + (durA + disc - 1) // disc + (var % 2)], 1, single=True)
        edges += [(lt, a), (lt, b), (root, lt)]
        c = task("C", totalq, 1 + durA, [1], 3, single=True)  # competes with A for the whole cluster
        edges.append((root, c))
    elif shape == "lt_first_single":
        # the parent has one fixed option, the child several, some of them too early
        lt = add("LT", name="lt1")
        a = task("A", reqA, durA, [1], 1)
        b = task("B", reqB, durB, [1, 2, 1 + (durA + disc - 1) // disc], 1)
        c = task("C", totalq, durB, [1, 2], 3)  # more valuable than A and B together, needs the whole cluster
        edges += [(lt, a), (lt, b), (root, lt), (root, c)]
    elif shape == "lt_alloc":
        # running parent (Allocation) ordered before its child's options, some of which start too early
        lt = add("LT", name="lt1")
        run = 2 + var % 2
        a = add("ALLOC", name="A", start=0, dur=run * disc, alloc={pids[0]: 1})
        if var % 3 == 0:  # every option of the child starts after the parent ends
            b = task("B", reqB, durB, [run, run + 1], 1)
            c = task("C", 1, durC, [0, 2], 1)
        elif var % 3 == 1:  # some options are too early; the only late one competes with a more valuable task
            b = task("B", reqB, durB, [1, 2, run], 1)
            c = task("C", totalq, durB, [run], 3)
        else:  # every option of the child is too early (it will miss its deadline): it simply cannot be placed
            b = task("B", reqB, durB, [0, 1], 1)
            c = task("C", 1, durC, [0, 2], 1)
        edges += [(lt, a), (lt, b), (root, lt), (root, c)]
        now = 0
    elif shape == "lt_min_alloc":
        # the first operand of the LessThan is a Min over a running task (Allocation) and a schedulable one: what comes after must wait for both
        lt = add("LT", name="lt1")
        mn = add("MIN", name="min1")
        run = 3 + var % 2
        a = add("ALLOC", name="A", start=0, dur=run * disc, alloc={pids[0]: 1})
        b = task("B", reqB, 1, [0, 1], 1)
        c = task("C", 1, durC, [1, 2, run, run + 1], 2)
        edges += [(mn, a), (mn, b), (lt, mn), (lt, c), (root, lt)]
        base, now = 0, 0
    elif shape == "lt_min":
        lt = add("LT", name="lt1")
        mn = add("MIN", name="min1")
        a = task("A", reqA, durA, [0, 1], 1)
        b = task("B", reqB, durB, [1, 2, 3], 1)
        c = task("C", 1, durC, [1, 3], 1)
        edges += [(mn, b), (mn, c), (lt, a), (lt, mn), (root, lt)]
    elif shape == "lt_nested":
        lt1 = add("LT", name="lt1")
        lt2 = add("LT", name="lt2")
        a = task("A", reqA, durA, [0, 1], 1)
        b = task("B", reqB, durB, [1, 2], 1)
        c = task("C", 1, durC, [2, 3, 4], 1)
        edges += [(lt2, b), (lt2, c), (lt1, a), (lt1, lt2), (root, lt1)]
    elif shape == "lt_nested_left":
        # LessThan(LessThan(a, b), c): c must start after b (the end of the inner expression), not merely after a
        lt1 = add("LT", name="lt1")
        lt2 = add("LT", name="lt2")
        a = task("A", 1, 1, [0, 1], 1)
        b = task("B", 1, durB + 1, [1, 2], 1)
        c = task("C", 1, durC, [2, 3, 4, 5], 1)
        edges += [(lt2, a), (lt2, b), (lt1, lt2), (lt1, c), (root, lt1)]
    elif shape == "scale":
        sc = add("SCALE", name="scale1", factor=3)
        a = task("A", reqA, durA, [0, 1], 1)
        edges += [(sc, a), (root, sc)]
        b = task("B", reqB, durB, [0, 1], 2)
        edges.append((root, b))
    elif shape == "shared":
        # the Max of task A is shared by a Min and by the Objective itself (STRL DAG)
        a = task("A", reqA, durA, [0, 1], 1)
        b = task("B", reqB, durB, [0, 2], 1)
        mn = add("MIN", name="min1")
        edges += [(mn, a), (mn, b), (root, mn), (root, a)]
    elif shape == "wchoose":
        n0 = -(-now // disc)
        m = add("MAX", name="max_A")
        edges.append((m, wchoose("A", reqA, durA, n0, n0 + 2, 1, off=var % 2)))
        w = wchoose("B", reqB, durB, n0, n0 + 1, 2)
        c = add("ALLOC", name="C", start=0, dur=2 * disc, alloc={pids[-1]: 1})
        edges += [(root, m), (root, w), (root, c)]
    elif shape == "lt_wchoose":
        n0 = -(-now // disc)
        lt = add("LT", name="lt1")
        a = wchoose("A", reqA, durA, n0, n0 + 1, 1)
        mb = add("MAX", name="max_B")
        edges.append((mb, wchoose("B", reqB, durB, n0, n0 + 3, 1, off=(var + 1) % 2)))
        edges += [(lt, a), (lt, mb), (root, lt)]
        c = task("C", 1, durC, [n0, n0 + 2], 1)
        edges.append((root, c))
    elif shape == "mchoose":
        n0 = -(-now // disc)
        # odd variants on the unit grid: rectangles twice as wide as the capacity slots, and a Choose that can start in the middle of one
        mg = 2 * g if (var % 2 == 1 and disc == 1 and not fine) else g
        a = add("MCHOOSE", name="A", slots=2 + var % 2, start=n0 * disc, end=n0 * disc + 3 * mg, gran=mg, util=2, parts=pids)
        b = task("B", reqB, 1 if mg != g else durB, [n0, n0 + 1], 1)
        edges += [(root, a), (root, b)]
    elif shape == "alloc_cap":
        # a running task fills part of the cluster; the rest must fit around it
        a = add("ALLOC", name="A", start=0, dur=2 * disc, alloc={pids[0]: 1})
        b = task("B", reqB, durB, [0, 1, 2], 1)
        c = task("C", reqA, durA, [0, 1], 2)
        edges += [(root, a), (root, b), (root, c)]
        now = 0
    for i, u in (spec.get("utils") or {}).items():
        nodes[int(i)]["util"] = u
    return P, nodes, edges, root, now, g


def describe(P, nodes, edges, root, now, disc, passes, dyn=0):
    lines = [f"PART {i} p{i} {q}" for i, q in P.items()]
    for i, n in nodes.items():
        k = n["kind"]
        ps = lambda: f"{len(n['parts'])} " + " ".join(map(str, n["parts"]))
        if k == "CHOOSE":
            lines.append(f"NODE {i} CHOOSE {n['name']} {n['req']} {n['start']} {n['dur']} {n['util']} {ps()}")
        elif k == "WCHOOSE":
            lines.append(f"NODE {i} WCHOOSE {n['name']} {n['req']} {n['start']} {n['dur']} {n['end']} {n['gran']} {n['util']} {ps()}")
        elif k == "MCHOOSE":
            lines.append(f"NODE {i} MCHOOSE {n['name']} {n['slots']} {n['start']} {n['end']} {n['gran']} {n['util']} {ps()}")
        elif k == "ALLOC":
            lines.append(f"NODE {i} ALLOC {n['name']} {n['start']} {n['dur']} {len(n['alloc'])} " + " ".join(f"{p} {q}" for p, q in n["alloc"].items()))
        elif k == "SCALE":
            lines.append(f"NODE {i} SCALE {n['name']} {n['factor']}")
        else:
            lines.append(f"NODE {i} {k} {n['name']}")
    lines += [f"EDGE {p} {c}" for p, c in edges]
    lines.append(f"RUN {root} {now} {disc} {passes[0]} {passes[1]}" + (f" 1 {dyn}" if dyn else ""))
    return lines


# ------------------------------------------------------------------------------------------ driver I/O

class Driver:
    def __init__(self):
        self.p = subprocess.Popen([DRIVER], stdin=subprocess.PIPE, stdout=subprocess.PIPE, text=True, bufsize=1, cwd=os.path.dirname(DRIVER))  # the library writes a timing csv into its cwd

    def send(self, lines, until):
        self.p.stdin.write("\n".join(lines) + "\n")
        self.p.stdin.flush()
        out = []
        while True:
            l = self.p.stdout.readline()
            if not l:
                raise RuntimeError("driver died: " + " | ".join(out[-3:]))
            l = l.rstrip("\n")
            if l == until:
                return out
            out.append(l)

    def close(self):
        try:
            self.p.stdin.write("QUIT\n")
            self.p.stdin.flush()
            self.p.wait(timeout=5)
        except Exception:
            self.p.kill()


def num(tok):
    f = float(tok)
    return int(f) if f.is_integer() else z3.RealVal(repr(f))


def parse_model(lines):
    zv, cons, info, obj = {}, [], {}, None
    inactive = 0
    exc = None
    for l in lines:
        t = l.split()
        if not t:
            continue
        if t[0] in ("EXCEPTION", "ERROR"):
            exc = l
            continue
        if t[0] == "VAR":
            name, ty, lb, ub = t[1], t[2], t[3], t[4]
            z = z3.Real(name) if ty == "C" else z3.Int(name)
            zv[name] = z
            if ty == "B":
                cons += [z >= 0, z <= 1]
            # GurobiSolver.cpp / CPLEXSolver.cpp translate a variable without a lower bound with lower bound 0
            cons.append(z >= (num(lb) if lb != "none" else 0))
            if ub != "none":
                cons.append(z <= num(ub))
        elif t[0] == "CON":
            name, sense, rhs, active, n = t[1], t[2], t[3], int(t[4]), int(t[5])
            if not active:
                inactive += 1
                continue
            s = 0
            for k in range(n):
                coef, var = t[6 + 2 * k], t[7 + 2 * k]
                s = s + (num(coef) if var == "@const" else num(coef) * zv[var])
            r = num(rhs)
            cons.append(s <= r if sense == "LE" else (s == r if sense == "EQ" else s >= r))
        elif t[0] == "OBJ":
            n = int(t[2])
            s = 0
            for k in range(n):
                coef, var = t[3 + 2 * k], t[4 + 2 * k]
                s = s + (num(coef) if var == "@const" else num(coef) * zv[var])
            obj = (t[1], s)
        elif t[0] == "NODEINFO":
            i = int(t[1])
            d = {"name": t[2], "type": t[3], "parsed": t[4], "ind": None, "indconst": None, "pv": {}, "wt": {}, "wpv": {}, "mpv": {}, "st": None, "en": None}
            for tok in t[5:]:
                if tok.startswith("ind=") and tok != "ind=none":
                    d["ind"] = tok[4:]
                elif tok.startswith("indconst="):
                    d["indconst"] = int(tok[9:])
                elif tok.startswith("pv:"):
                    pid, vn = tok[3:].split("=")
                    d["pv"][int(pid)] = vn
                elif tok.startswith("wt:"):
                    tt, vn = tok[3:].split("=")
                    d["wt"][int(tt)] = vn
                elif tok.startswith("wpv:"):
                    k, vn = tok[4:].split("=")
                    tt, pid = k.split(":")
                    d["wpv"].setdefault(int(tt), {})[int(pid)] = vn
                elif tok.startswith("mpv:"):
                    k, vn = tok[4:].split("=")
                    pid, tt = k.split(":")
                    d["mpv"][(int(pid), int(tt))] = vn
                elif tok.startswith("st="):
                    d["st"] = tok[3:]
                elif tok.startswith("en="):
                    d["en"] = tok[3:]
            info[i] = d
    return {"zv": zv, "cons": cons, "info": info, "obj": obj, "inactive": inactive, "exception": exc}


# ------------------------------------------------------------------------------------------ reference semantics

def ref(P, nodes, edges, root, now, gran):
    """Independent SMT semantics of the STRL tree. Returns (constraints, utility term).
    Every node yields None (can never give utility) or (sat, utility, spans) where spans is a list of
    (condition, start, end) of the leaf executions below it."""
    cons = []
    kids = {i: [c for p, c in edges if p == i] for i in nodes}
    memo = {}
    usage = []  # (partition, t0, t1, quantity term)
    keys = {}

    def go(i):
        if i in memo:
            return memo[i]
        n = nodes[i]
        k = n["kind"]
        r = None
        if k == "CHOOSE":
            if now <= n["start"]:
                sat = z3.Bool(f"R_sat_{i}")
                alloc = {p: z3.Int(f"R_alloc_{i}_{p}") for p in n["parts"]}
                for p, a in alloc.items():
                    cons.append(z3.And(a >= 0, a <= P[p]))
                    usage.append((p, n["start"], n["start"] + n["dur"], z3.If(sat, a, 0)))
                cons.append(z3.Implies(sat, z3.Sum(list(alloc.values())) == n["req"]))
                keys[(i, n["start"])] = sat
                r = (sat, z3.If(sat, z3.RealVal(n["util"]), z3.RealVal(0)), [(sat, z3.IntVal(n["start"]), z3.IntVal(n["start"] + n["dur"]))])
        elif k == "WCHOOSE":
            choices = [t for t in range(n["start"], n["end"] + 1) if t % n["gran"] == 0]
            if now <= n["end"] and choices:
                sat = z3.Bool(f"R_sat_{i}")
                at = {t: z3.Bool(f"R_at_{i}_{t}") for t in choices}
                cons.append(z3.If(sat, z3.PbEq([(b, 1) for b in at.values()], 1), z3.Not(z3.Or(list(at.values())))))
                spans = []
                for t, b in at.items():
                    alloc = {p: z3.Int(f"R_alloc_{i}_{t}_{p}") for p in n["parts"]}
                    for p, a in alloc.items():
                        cons.append(z3.And(a >= 0, a <= P[p]))
                        usage.append((p, t, t + n["dur"], z3.If(b, a, 0)))
                    cons.append(z3.Implies(b, z3.Sum(list(alloc.values())) == n["req"]))
                    spans.append((b, z3.IntVal(t), z3.IntVal(t + n["dur"])))
                    keys[(i, t)] = b
                r = (sat, z3.If(sat, z3.RealVal(n["util"]), z3.RealVal(0)), spans)
        elif k == "MCHOOSE":
            if now <= n["start"]:
                sat = z3.Bool(f"R_sat_{i}")
                cells, spans = [], []
                for t in range(n["start"], n["end"], n["gran"]):
                    here = []
                    for p in n["parts"]:
                        a = z3.Int(f"R_alloc_{i}_{t}_{p}")
                        cons.append(z3.And(a >= 0, a <= P[p]))
                        usage.append((p, t, t + n["gran"], z3.If(sat, a, 0)))
                        here.append(a)
                    cells += here
                    spans.append((z3.And(sat, z3.Sum(here) > 0), z3.IntVal(t), z3.IntVal(t + n["gran"])))
                cons.append(z3.Implies(sat, z3.Sum(cells) == n["slots"]))
                keys[(i, -1)] = sat
                r = (sat, z3.If(sat, z3.RealVal(n["util"]), z3.RealVal(0)), spans)
        elif k == "ALLOC":
            for p, q in n["alloc"].items():
                usage.append((p, n["start"], n["start"] + n["dur"], z3.IntVal(q)))
            r = (z3.BoolVal(True), z3.RealVal(0), [(z3.BoolVal(True), z3.IntVal(n["start"]), z3.IntVal(n["start"] + n["dur"]))])
        elif k == "MAX":
            rs = [x for x in (go(c) for c in kids[i]) if x is not None]
            if rs:
                cons.append(z3.PbLe([(x[0], 1) for x in rs], 1))
                r = (z3.Or([x[0] for x in rs]), z3.Sum([x[1] for x in rs]), [s for x in rs for s in x[2]])
        elif k == "MIN":
            rs = [go(c) for c in kids[i]]
            if rs and all(x is not None for x in rs):
                sat = z3.Bool(f"R_min_{i}")
                for c, x in zip(kids[i], rs):
                    if nodes[c]["kind"] != "ALLOC":
                        cons.append(x[0] == sat)
                r = (sat, z3.Sum([x[1] for x in rs]), [s for x in rs for s in x[2]])
        elif k == "LT":
            a, b = [go(c) for c in kids[i]]
            if a is not None and b is not None:
                sat = z3.Bool(f"R_lt_{i}")
                fixed = [nodes[c]["kind"] == "ALLOC" for c in kids[i]]
                if not fixed[0]:
                    cons.append(a[0] == sat)
                if not fixed[1]:
                    cons.append(b[0] == sat)
                if all(fixed):
                    cons.append(sat)
                for (c1, s1, e1) in a[2]:
                    for (c2, s2, e2) in b[2]:
                        cons.append(z3.Implies(z3.And(sat, c1, c2), e1 <= s2))
                r = (sat, a[1] + b[1], a[2] + b[2])
        elif k == "SCALE":
            x = go(kids[i][0])
            r = None if x is None else (x[0], z3.RealVal(n["factor"]) * x[1], x[2])
        elif k == "OBJ":
            rs = [x for x in (go(c) for c in kids[i]) if x is not None]
            r = (z3.BoolVal(True), z3.Sum([x[1] for x in rs]) if rs else z3.RealVal(0), [])
        else:
            raise ValueError(k)
        memo[i] = r
        return r

    top = go(root)
    # every Allocation is a fact, whatever becomes of its parents
    for i, n in nodes.items():
        if n["kind"] == "ALLOC" and i not in memo:
            go(i)
    horizon = max([u[2] for u in usage] + [1])
    for p, q in P.items():
        for tau in range(0, horizon):
            use = [a for (pp, t0, t1, a) in usage if pp == p and t0 <= tau < t1]
            if use:
                cons.append(z3.Sum(use) <= q)
    return cons, top[1], keys


def maximize(cons, term):
    """optimum by plain-solver strengthening (vlib/opt.py: z3.Optimize is not trusted); "infeasible" | None (unknown) | value"""
    st, v, _ = opt.maximize(cons, term)
    if st == "unsat":
        return "infeasible"
    if st != "sat":
        return None
    return v if isinstance(v, int) else float(v)


def allsat(cons, exprs, cap=600):
    """all truth assignments of `exprs` consistent with cons (solver-driven enumeration with blocking clauses)"""
    s = z3.Solver()
    s.set("timeout", 60000)
    s.add(cons)
    bs = [z3.Bool(f"__k{j}") for j in range(len(exprs))]
    for b, e in zip(bs, exprs):
        s.add(b == e)
    out = []
    while len(out) < cap:
        r = s.check()
        if r == z3.unsat:
            return out, True
        if r != z3.sat:
            return out, None
        m = s.model()
        pat = tuple(z3.is_true(m.eval(b, model_completion=True)) for b in bs)
        out.append(pat)
        s.add(z3.Or([b != v for b, v in zip(bs, pat)]))
    return out, False


def zval(v):
    if z3.is_int_value(v):
        return v.as_long()
    if z3.is_rational_value(v):
        fr = v.as_fraction()
        return int(fr) if fr.denominator == 1 else float(fr)
    return float(str(v))


# ------------------------------------------------------------------------------------------ the check

def compile_tree(drv, spec, passes=None, fine=False, dyn=None):
    P, nodes, edges, root, now, g = make_tree(spec, fine=fine)
    lines = describe(P, nodes, edges, root, now, g, passes if passes is not None else spec["passes"], dyn=spec.get("dyn", 0) if dyn is None else dyn)
    out = drv.send(lines, "ENDMODEL")
    return (P, nodes, edges, root, now, g), parse_model(out)


def optimum_pair(spec):
    """(optimum of the compiled model, optimum of the reference) for a tree, each by plain-solver maximisation"""
    d = Driver()
    try:
        tree, pm = compile_tree(d, spec)
    finally:
        d.close()
    if pm["exception"]:
        return "raised", None
    P, nodes, edges, root, now, g = tree
    rc, ru, _ = ref(P, nodes, edges, root, now, g)
    return maximize(pm["cons"], pm["obj"][1]), maximize(rc, ru)


class Model:
    """The compiled model + the read-back relation."""

    def __init__(self, tree, pm):
        self.P, self.nodes, self.edges, self.root, self.now, self.g = tree
        self.zv, self.cons, self.info, self.obj = pm["zv"], pm["cons"], pm["info"], pm["obj"]
        self.kids = {i: [c for p, c in self.edges if p == i] for i in self.nodes}
        # nodes whose placements can reach the root: every ancestor on some path was parsed with utility
        self.live = set()
        stack = [self.root]
        while stack:
            i = stack.pop()
            if i in self.live or self.info[i]["parsed"] != "utility":
                continue
            self.live.add(i)
            stack += self.kids[i]

    def ind(self, i):
        d = self.info[i]
        if d["parsed"] != "utility":
            return z3.BoolVal(False)
        if d["ind"] is not None:
            return self.zv[d["ind"]] == 1
        if d["indconst"] is not None:
            return z3.BoolVal(d["indconst"] == 1)
        return z3.BoolVal(True)

    def leaf(self, i):
        """-> dict(sat, usage [(p,t0,t1,qty)], spans [(cond,start,end)], exact [formula that must hold when satisfied])"""
        n, d = self.nodes[i], self.info[i]
        zv = self.zv
        k = n["kind"]
        if k == "ALLOC":
            s, e = n["start"], n["start"] + n["dur"]
            return {"sat": z3.BoolVal(True), "usage": [(p, s, e, z3.IntVal(q)) for p, q in n["alloc"].items()], "spans": [(z3.BoolVal(True), z3.IntVal(s), z3.IntVal(e))], "exact": []}
        if i not in self.live:
            return None
        sat = self.ind(i)
        if k == "CHOOSE":
            s, e = n["start"], n["start"] + n["dur"]
            return {"sat": sat, "usage": [(p, s, e, z3.If(sat, zv[v], 0)) for p, v in d["pv"].items()], "spans": [(sat, z3.IntVal(s), z3.IntVal(e))],
                    "exact": [z3.Sum([zv[v] for v in d["pv"].values()]) == n["req"]]}
        if k == "WCHOOSE":
            usage, spans, tot = [], [], []
            for t, pv in d["wt"].items():
                on = z3.And(sat, zv[pv] == 1)
                for p, v in d["wpv"][t].items():
                    usage.append((p, t, t + n["dur"], z3.If(on, zv[v], 0)))
                spans.append((on, z3.IntVal(t), z3.IntVal(t + n["dur"])))
                tot.append(z3.Implies(zv[pv] == 1, z3.Sum([zv[v] for v in d["wpv"][t].values()]) == n["req"]))
            return {"sat": sat, "usage": usage, "spans": spans, "exact": [z3.PbEq([(zv[pv] == 1, 1) for pv in d["wt"].values()], 1)] + tot}
        if k == "MCHOOSE":
            usage, spans = [], []
            times = sorted({t for (_, t) in d["mpv"]})
            for (p, t), v in d["mpv"].items():
                usage.append((p, t, t + n["gran"], z3.If(sat, zv[v], 0)))
            for t in times:
                spans.append((z3.And(sat, z3.Sum([zv[v] for (p, tt), v in d["mpv"].items() if tt == t]) > 0), z3.IntVal(t), z3.IntVal(t + n["gran"])))
            return {"sat": sat, "usage": usage, "spans": spans, "exact": [z3.Sum([zv[v] for v in d["mpv"].values()]) == n["slots"]]}
        raise ValueError(k)

    def keys(self):
        """{(leaf, option): condition 'this option of this leaf is reported as placed'} -- same keys as ref()"""
        out = {}
        for i, n in self.nodes.items():
            if i not in self.live:
                continue
            if n["kind"] == "CHOOSE":
                out[(i, n["start"])] = self.ind(i)
            elif n["kind"] == "WCHOOSE":
                for t, pv in self.info[i]["wt"].items():
                    out[(i, t)] = z3.And(self.ind(i), self.zv[pv] == 1)
            elif n["kind"] == "MCHOOSE":
                out[(i, -1)] = self.ind(i)
        return out

    def spans_under(self, i, memo=None):
        memo = {} if memo is None else memo
        if i in memo:
            return memo[i]
        if self.nodes[i]["kind"] in LEAVES:
            lf = self.leaf(i)
            r = lf["spans"] if lf else []
        else:
            r = [s for c in self.kids[i] for s in self.spans_under(c, memo)]
        memo[i] = r
        return r

    def predict(self, m):
        """placements / allocations the real populateResults() should report for model m"""
        place, alloc = {}, {}
        val = lambda e: zval(m.eval(e, model_completion=True))
        for i, n in self.nodes.items():
            if n["kind"] not in ("CHOOSE", "WCHOOSE", "MCHOOSE") or i not in self.live:
                continue
            if not z3.is_true(m.eval(self.ind(i), model_completion=True)):
                continue
            d = self.info[i]
            if n["kind"] == "CHOOSE":
                place[n["name"]] = (1, n["start"], n["start"] + n["dur"])
                for p, v in d["pv"].items():
                    q = val(self.zv[v])
                    if abs(q) >= 0.1:
                        alloc.setdefault(n["name"], {})[(p, n["start"])] = int(q)
            elif n["kind"] == "WCHOOSE":
                for t, pv in d["wt"].items():
                    if abs(val(self.zv[pv])) >= 0.1:
                        place[n["name"]] = (1, t, t + n["dur"])
                        for p, v in d["wpv"][t].items():
                            q = val(self.zv[v])
                            if abs(q) >= 0.1:
                                alloc.setdefault(n["name"], {})[(p, t)] = int(q)
            else:
                place[n["name"]] = (1, val(self.zv[d["st"]]), val(self.zv[d["en"]]))
                for (p, t), v in d["mpv"].items():
                    q = val(self.zv[v])
                    if abs(q) >= 0.1:
                        alloc.setdefault(n["name"], {})[(p, t)] = int(q)
        return place, alloc


def check_instance(spec):
    res = {"queries": 0, "unsat": 0, "sat": 0, "unknown": 0, "solver_s": 0.0, "validated": 0, "models": 0, "skipped": 0, "checked": {}, "violations": [], "errors": []}

    def note(label):
        res["checked"][label] = res["checked"].get(label, 0) + 1

    def bad(label, **detail):
        res["violations"].append({"label": label, "detail": detail})

    drv = Driver()
    try:
        tree, pm = compile_tree(drv, spec)
        if pm["exception"]:
            res["models"] = 1
            note("C20:compiles")
            # does the same tree compile without the pruning passes? then the passes changed the outcome from a model to an exception
            without = None
            if tuple(spec["passes"]) != (0, 0) or spec.get("dyn"):
                d2 = Driver()
                try:
                    _, pm2 = compile_tree(d2, spec, passes=(0, 0), dyn=0)
                    without = "compiles" if not pm2["exception"] else pm2["exception"][:200]
                finally:
                    d2.close()
            if without == "compiles":
                bad("C20:passes-make-the-compiler-raise", exception=pm["exception"][:300], passes=spec["passes"], dyn=spec.get("dyn", 0))
            else:
                bad("C20:compiler-raised", exception=pm["exception"][:300], without_passes=without)
            return res
        M = Model(tree, pm)
        P, nodes, root = M.P, M.nodes, M.root
        res["models"] = 1
        s = z3.Solver()
        s.set("timeout", 60000)
        s.add(M.cons)

        def ask(extra):
            t0 = time.time()
            s.push()
            s.add(extra)
            r = s.check()
            m = s.model() if r == z3.sat else None
            s.pop()
            res["solver_s"] += time.time() - t0
            res["queries"] += 1
            res[str(r)] = res.get(str(r), 0) + 1
            return str(r), m

        def replay(m, what):
            """inject the z3 model into the real C++ model, call the real populateResults(), compare with the read-back relation."""
            vals = {n: m.eval(z, model_completion=True) for n, z in M.zv.items()}
            lines = [f"SOL {len(vals)}"] + [f"{n} {zval(v)}" for n, v in vals.items()]
            out = drv.send(lines, "ENDSOL")
            res["validated"] += 1
            note("C20:readback-matches-populateResults")
            if any(l.startswith("EXCEPTION") for l in out):
                bad("C20:populateResults-raised", what=what, exception=[l for l in out if l.startswith("EXCEPTION")][0][:300])
                return None
            real_alloc, real_place, utils, objv = {}, {}, {}, None
            for l in out:
                t = l.split()
                if t[0] == "ALLOCATION":
                    real_alloc.setdefault(t[1], {})[(int(t[2]), int(t[3]))] = int(t[4])
                elif t[0] == "PLACEMENT":
                    real_place[t[1]] = (int(t[2]), None if t[3] == "none" else int(t[3]), None if t[4] == "none" else int(t[4]))
                elif t[0] == "UTIL" and len(t) >= 5 and t[3] == "utility":
                    utils[int(t[1])] = float(t[4]) if t[4] != "none" else None
                elif t[0] == "OBJVALUE":
                    objv = float(t[1])
            pred_place, pred_alloc = M.predict(m)
            if pred_place != real_place or pred_alloc != real_alloc:
                res["errors"].append(f"read-back relation disagrees with populateResults() ({what}): predicted {pred_place} {pred_alloc}, real {real_place} {real_alloc}")
                return None
            return {"placements": real_place, "allocations": {k: {f"p{a}@{b}": c for (a, b), c in v.items()} for k, v in real_alloc.items()}, "utils": utils, "objective": objv}

        leaves = {i: M.leaf(i) for i, n in nodes.items() if n["kind"] in LEAVES}
        leaves = {i: l for i, l in leaves.items() if l is not None}
        placeable = [i for i in leaves if nodes[i]["kind"] != "ALLOC"]

        # ---- the model has a solution at all (placing nothing is always a valid outcome in this family)
        r, m = ask(z3.BoolVal(True))
        note("C20:model-is-feasible")
        if r == "unsat":
            bad("C20:model-is-infeasible", why="the compiled model has no solution although placing nothing new is a valid outcome")
            return res
        if r == "sat":
            rb = replay(m, "arbitrary solution")
            if rb:
                note("C20:utility-equals-objective")
                zobj = zval(m.eval(M.obj[1], model_completion=True))
                if rb["utils"].get(root) is None or abs(rb["utils"][root] - rb["objective"]) > 1e-9 or abs(zobj - rb["objective"]) > 1e-9:
                    bad("C20:utility-equals-objective", reported=rb["utils"].get(root), objective=rb["objective"], z3=zobj)
                res["sample"] = {"vars": len(M.zv), "constraints": len(M.cons), "inactive_constraints": pm["inactive"], "placements": rb["placements"]}
        # ---- reachability witness: some leaf can be satisfied (the optimum comparison below covers "as many as the reference allows")
        if placeable:
            r, m = ask(z3.Or([leaves[i]["sat"] for i in placeable]))
            if r == "sat":
                note("C20:witness-some-leaf-can-be-satisfied")
                rb = replay(m, "witness")
                if rb and not rb["placements"]:
                    res["errors"].append("witness solution satisfies a leaf but populateResults() reports no placement")
        # ---- capacity at every instant, over all solutions
        usage = [u for l in leaves.values() for u in l["usage"]]
        horizon = max([u[2] for u in usage] + [1])
        for p, q in P.items():
            for tau in range(0, horizon):
                use = [a for (pp, t0, t1, a) in usage if pp == p and t0 <= tau < t1]
                if not use:
                    continue
                note("C20:capacity-within-quantity")
                r, m = ask(z3.Sum(use) > q)
                if r == "sat":
                    rb = replay(m, "capacity counterexample")
                    if rb:
                        bad("C20:capacity-within-quantity", partition=p, time=tau, use=zval(m.eval(z3.Sum(use), model_completion=True)), quantity=q, placements=rb["placements"], allocations=rb["allocations"])
                    break
        # ---- exactness
        for i in placeable:
            note("C20:choose-gets-exactly-its-demand")
            r, m = ask(z3.And(leaves[i]["sat"], z3.Not(z3.And(leaves[i]["exact"]))))
            if r == "sat":
                rb = replay(m, "choose exactness")
                bad("C20:choose-gets-exactly-its-demand", leaf=nodes[i]["name"], replay=rb and rb["allocations"].get(nodes[i]["name"]))
        # ---- operator structure
        memo = {}
        for i, n in nodes.items():
            if i not in M.live:
                continue
            kids = M.kids[i]
            if n["kind"] == "MAX":
                note("C20:max-at-most-one-child")
                r, m = ask(z3.Sum([z3.If(M.ind(c), 1, 0) for c in kids]) > 1)
                if r == "sat":
                    bad("C20:max-at-most-one-child", node=n["name"])
            elif n["kind"] == "MIN":
                note("C20:min-all-children")
                ks = [c for c in kids if nodes[c]["kind"] != "ALLOC"]
                r, m = ask(z3.And(z3.Or([M.ind(c) for c in ks]), z3.Not(z3.And([M.ind(c) for c in ks]))))
                if r == "sat":
                    rb = replay(m, "min structure")
                    bad("C20:min-all-children", node=n["name"], placements=rb and rb["placements"])
            elif n["kind"] == "LT":
                a, b = kids
                note("C20:lessthan-ordered")
                pairs = [z3.And(c1, c2, e1 > s2) for (c1, s1, e1) in M.spans_under(a, memo) for (c2, s2, e2) in M.spans_under(b, memo)]
                r, m = ask(z3.Or(pairs)) if pairs else ("unsat", None)
                if r == "sat":
                    rb = replay(m, "lessthan order")
                    bad("C20:lessthan-ordered", node=n["name"], placements=rb and rb["placements"])
                note("C20:lessthan-both-or-neither")
                free = [c for c in kids if nodes[c]["kind"] != "ALLOC"]
                if len(free) == 2:
                    r, m = ask(z3.Xor(M.ind(a), M.ind(b)))
                    if r == "sat":
                        rb = replay(m, "lessthan both-or-neither")
                        bad("C20:lessthan-both-or-neither", node=n["name"], placements=rb and rb["placements"])
        # ---- optimum vs reference
        note("C20:optimum-equals-reference")
        t0 = time.time()
        opt_m = maximize(M.cons, M.obj[1])
        rc, ru, rkeys = ref(P, nodes, M.edges, root, M.now, M.g)
        opt_r = maximize(rc, ru)
        res["solver_s"] += time.time() - t0
        res["queries"] += 2
        if opt_m is None or opt_r is None:
            res["unknown"] += 1
        else:
            res["sat"] += 2
            if spec.get("dyn"):
                # a coarser (dynamically chosen) grid may lose utility, never gain any
                note("C20:coarser-grid-only-loses-utility")
                if isinstance(opt_m, str) or isinstance(opt_r, str) or opt_m > opt_r + 1e-9:
                    bad("C20:coarser-grid-only-loses-utility", dynamic=opt_m, reference=opt_r, dyn=spec["dyn"])
            elif opt_m == "infeasible" or opt_r == "infeasible" or abs(opt_m - opt_r) > 1e-9:
                bad("C20:optimum-equals-reference", model=opt_m, reference=opt_r)
            # the same tree without passes
            if tuple(spec["passes"]) != (0, 0) and not spec.get("dyn"):
                note("C20:passes-preserve-optimum")
                d2 = Driver()
                try:
                    _, pm2 = compile_tree(d2, spec, passes=(0, 0))
                    o2 = maximize(pm2["cons"], pm2["obj"][1]) if not pm2["exception"] else "raised"
                    res["queries"] += 1
                    if o2 is None:
                        res["unknown"] += 1
                    elif o2 != opt_m:
                        bad("C20:passes-preserve-optimum", with_passes=opt_m, without=o2, passes=spec["passes"])
                finally:
                    d2.close()
            # the same problem on the unit grid: the coarse grid may only lose utility
            if spec["disc"] > 1 and tuple(spec["passes"]) == (0, 0) and not spec.get("dyn"):
                note("C20:coarser-grid-only-loses-utility")
                d2 = Driver()
                try:
                    _, pm2 = compile_tree(d2, spec, fine=True)
                    o2 = maximize(pm2["cons"], pm2["obj"][1]) if not pm2["exception"] else "raised"
                    res["queries"] += 1
                    if o2 is None:
                        res["unknown"] += 1
                    elif isinstance(o2, str) or isinstance(opt_m, str) or opt_m > o2 + 1e-9:
                        bad("C20:coarser-grid-only-loses-utility", coarse=opt_m, fine=o2, disc=spec["disc"])
                finally:
                    d2.close()
        # ---- the sets of outcomes (which option of which leaf is placed) of the model and of the reference coincide
        mkeys = M.keys()
        rs = z3.Solver()
        rs.set("timeout", 60000)
        rs.add(rc)
        # options pruned on one side only must be impossible on the other
        for k in sorted(set(rkeys) - set(mkeys)) if not spec.get("dyn") else []:
            res["queries"] += 1
            if rs.check(rkeys[k]) != z3.unsat:
                bad("C20:every-valid-outcome-is-a-model-solution", why="an option the reference can place does not exist (or has no utility) in the compiled model", option=f"{nodes[k[0]]['name']}@{k[1]}")
        for k in sorted(set(mkeys) - set(rkeys)):
            r, m = ask(mkeys[k])
            if r != "unsat":
                rb = replay(m, "option without utility in the reference") if r == "sat" else None
                bad("C20:every-model-outcome-is-valid", why="the model places an option the reference can never place", option=f"{nodes[k[0]]['name']}@{k[1]}", placements=rb and rb["placements"])
        ks = sorted(set(mkeys) & set(rkeys))
        name = lambda pat: sorted(f"{nodes[i]['name']}@{t}" for (i, t), v in zip(ks, pat) if v)
        t0 = time.time()
        pm_, done_m = allsat(M.cons, [mkeys[k] for k in ks])
        pr_, done_r = allsat(rc, [rkeys[k] for k in ks])
        res["solver_s"] += time.time() - t0
        res["queries"] += len(pm_) + len(pr_) + 2
        res["sat"] += len(pm_) + len(pr_)
        if done_m is None or done_r is None:
            res["unknown"] += 1
        elif not (done_m and done_r):
            res["errors"].append("outcome enumeration hit its cap")
        else:
            res["unsat"] += 2
            note("C20:every-model-outcome-is-valid")
            extra = sorted(set(pm_) - set(pr_))
            if extra:
                r, m = ask(z3.And([mkeys[k] == v for k, v in zip(ks, extra[0])]))
                rb = replay(m, "outcome not allowed by the reference") if r == "sat" else None
                bad("C20:every-model-outcome-is-valid", outcome=name(extra[0]), count=len(extra), placements=rb and rb["placements"], allocations=rb and rb["allocations"])
            # a valid outcome the model cannot produce matters (for the property as stated) when no model outcome contains it:
            # then some choice of utilities makes the optimum differ -- which is demonstrated on the re-weighted tree
            note("C20:every-valid-outcome-is-a-model-solution")
            msets = [frozenset(k for k, v in zip(ks, pat) if v) for pat in pm_]
            for pat in sorted(set(pr_) - set(pm_)) if not spec.get("dyn") else []:
                X = frozenset(k for k, v in zip(ks, pat) if v)
                if any(X <= Y for Y in msets):
                    continue
                utils = {str(i): (1 if n["kind"] != "MCHOOSE" else 1) for i, n in nodes.items() if "util" in n}
                for (i, t) in X:
                    utils[str(i)] = 10
                spec2 = dict(spec, utils=utils)
                om, orf = optimum_pair(spec2)
                res["queries"] += 2
                if om is None or orf is None:
                    res["unknown"] += 1
                elif om != orf:
                    bad("C20:optimum-equals-reference", model=om, reference=orf, valid_outcome_missing_from_the_model=name(pat), utilities=utils, tree="same tree with these leaf utilities")
                break
    finally:
        drv.close()
    return res


def signature(spec, v):
    if v["label"] == "C20:passes-make-the-compiler-raise" and "must have at least one child with utility" in str(v["detail"].get("exception")) and spec["passes"][0] == 1 and not spec.get("dyn"):
        return "critical-path-pass-leaves-a-max-whose-only-option-is-in-the-past"
    if v["label"] == "C20:model-is-infeasible" and spec["shape"] == "lt_min_alloc":
        return "min-over-an-allocation-bounds-its-end-time-unconditionally"
    return v["label"] + ":" + spec["shape"]


def main(argv=None):
    setup()
    import checks.c20 as _m

    return mipcheck.main(_m, argv)


if __name__ == "__main__":
    sys.exit(main())
