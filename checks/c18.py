"""C18 -- the scheduling frontier offers exactly the work that may be decided now."""
import sys

from vlib import harness, simworld
from vlib import worlds as w
from vlib.simcheck import RT3, SIM_ASSUMPTIONS, SIM_OUTSIDE, small

ID = "C18"
ORACLES = ["C18"]
ANCHORS = [("workload/tasks.py", "TaskGraph.get_schedulable_tasks"), ("workload/tasks.py", "TaskGraph.get_releasable_tasks"),
           ("workload/tasks.py", "TaskGraph.notify_task_completion"), ("workload/tasks.py", "TaskGraph.resolve_conditional")]
LIMITS = {"samples_per_job": 1, "validate_per_job": 1}
CRASH_IS_VIOLATION = False
ASSUMPTIONS = SIM_ASSUMPTIONS + ["frontier states are those reached by real simulation runs (greedy and solver-driven plan-ahead policies), observed at every scheduler invocation",
                                  "lookahead monotonicity is a two-call relational query with two symbolic lookaheads l1 <= l2 at the k-th invocation (k = 1..3), after which the run is abandoned"]
OUTSIDE = SIM_OUTSIDE + "; branch-prediction policies other than ALL / RANDOM / WORST_CASE / BEST_CASE / MAXIMUM on the enumerated worlds; preemption"
BOUNDS = "chains, forks, joins, conditionals with <=5 tasks; every scheduler invocation of every explored run; symbolic lookaheads"
EXPLANATION = ("real simulation runs on all feasible paths; at every SCHEDULER_START the real Workload.get_schedulable_tasks is evaluated on the live state and compared (z3) with the definition: "
               "released & arrived => offered, finished never, scheduled/running only with retraction/preemption, no unfinished predecessor without plan-ahead, monotone in lookahead and release_taskgraphs; "
               "every notify_task_completion result is compared with the set of children whose every parent is complete")
REQUIRED_LABELS = ["C18:released-task-offered", "C18:finished-task-not-offered", "C18:scheduled-offered-only-with-retraction", "C18:no-plan-ahead-no-unfinished-predecessors",
                   "C18:offer-monotone-in-lookahead", "C18:offer-monotone-in-release_taskgraphs", "C18:completion-releases-exactly-ready-children",
                   "C18:completion-releases-one-chosen-child"]
AB = ("T0", "T1")


def worlds(tier):
    hv = {"max_delta": 2}
    ws = [
        w.W("indep2-1cpu-EDF", w.indep(2), w.C1, "EDF", split=6, weight=40),
        w.W("chain2-1cpu-FIFO", w.chain(2), w.C1, "FIFO", split=4),
        w.W("chain2-waiting-parent-1cpu-EDF", w.chain(2) + w.indep(1), w.C1, "EDF", split=7, weight=60),
        w.W("join-2cpu-EDF", w.join(), w.C2, "EDF", split=6, weight=20),
        w.W("sensor-feeds-both-branches-and-logger-EDF", [w.G("G0", ["S", "C", "a", "a2", "b", "b2", "J", "L"],
                                                               [("C", "a"), ("C", "b"), ("a", "a2"), ("b", "b2"), ("a2", "J"), ("b2", "J"), ("S", "a2"), ("S", "b2"), ("S", "L")],
                                                               cond={"C": {"a": 0.5, "b": 0.5}}, terminal=["J"], release=0, deadline=10 ** 6)], w.C2, "EDF", split=7, weight=40,
            tasks=small(("S", "C", "a", "a2", "b", "b2", "J", "L"))),
        w.W("cond2-1cpu-EDF", w.fixed_times(w.cond2()), w.C1, "EDF", split=6, weight=10),
        w.W("cond-branches-with-their-own-sinks-EDF", w.fixed_times(w.cond_nojoin()), w.C1, "EDF", split=6, weight=10, tasks=small(("C", "a", "a2", "b", "b2"))),
        w.W("cond2-havoc-release_taskgraphs-join-planned-ahead", w.fixed_times(w.cond2()), w.C2, "HAVOC", split=8,
            havoc=dict(hv, release_taskgraphs=True, max_unplaced=0, first_pool_only=True), tasks=small(("C", "a", "b", "J")), weight=60),
        w.W("chain2-havoc-lookahead", w.fixed_times(w.chain(2)), w.C1, "HAVOC", split=6, havoc=dict(hv, lookahead="sym"), tasks=small(AB)),
        w.W("chain2-havoc-release_taskgraphs-retract", w.fixed_times(w.chain(2)), w.C1, "HAVOC", split=7, havoc=dict(hv, release_taskgraphs=True, retract=True), tasks=small(AB), weight=30),
    ]
    for k in (1, 2, 3):
        ws.append(w.W(f"probe{k}-chain3-EDF", w.chain(3), w.C1, "EDF", split=7, weight=30, c18_probe_at=k, tasks={"T2": {"release": "sym"}}))
        ws.append(w.W(f"probe{k}-join-havoc", w.fixed_times(w.join()), w.C2, "HAVOC", split=7, weight=30, c18_probe_at=k,
                      havoc=dict(hv, lookahead="sym", max_unplaced=0, first_pool_only=True), tasks=small(("A", "B", "C"))))
        ws.append(w.W(f"probe{k}-cond2-EDF", w.fixed_times(w.cond2()), w.C1, "EDF", split=7, weight=30, c18_probe_at=k, tasks=small(("C", "a", "b", "J"))))
    if tier == "thorough":
        # RANDOM prediction is left out here: every frontier query draws afresh, so two queries with different horizons are not comparable
        # (the monotonicity clauses presuppose one prediction); it is exercised without the relational probe in C07
        for bp in ("WORST_CASE", "BEST_CASE", "MAXIMUM"):
            ws.append(w.W(f"probe2-cond-uneven-{bp}", w.fixed_times(w.cond_uneven()), w.C2, "EDF", split=8, weight=100, c18_probe_at=2, branch_policy=bp,
                          tasks=small(("C", "a", "a2", "b", "J"))))
        ws += [
            w.W("cond-branches-with-their-own-sinks-havoc-release_taskgraphs", w.fixed_times(w.cond_nojoin()), w.C2, "HAVOC", split=9,
                havoc=dict(hv, release_taskgraphs=True, max_unplaced=0, first_pool_only=True, future=False), tasks=small(("C", "a", "a2", "b", "b2")), weight=400),
            w.W("chain3-havoc-lookahead-retract", w.fixed_times(w.chain(3)), w.C1, "HAVOC", split=9, havoc=dict(max_delta=1, lookahead=["sym", 0, 4], retract=True, max_replans=1, max_unplaced=0), tasks={t: {"strategies": [{"rt": 2}]} for t in ("T0", "T1", "T2")}, weight=400),
            w.W("probe3-diamond-EDF", w.fixed_times(w.diamond()), w.C2, "EDF", split=8, weight=200, c18_probe_at=3, tasks=small(("A", "B", "C", "D"))),
            w.W("diamond-2cpu-EDF", w.diamond(), w.C2, "EDF", split=8, weight=200),
            w.W("probe2-diamond-havoc", w.fixed_times(w.diamond()), w.C2, "HAVOC", split=9, weight=300, c18_probe_at=2,
                havoc=dict(hv, release_taskgraphs=True, max_unplaced=0, first_pool_only=True), tasks=small(("A", "B", "C", "D"))),
            w.W("cond-tail-havoc-release_taskgraphs", w.fixed_times(w.cond_tail()), w.C2, "HAVOC", split=9,
                havoc=dict(hv, release_taskgraphs=True, max_unplaced=0, first_pool_only=True, future=False), tasks=small(("C", "a", "b", "J", "Z")), weight=300),
        ]
    return ws


def run(env, world):
    simworld.run(env, world, ORACLES)


if __name__ == "__main__":
    import checks.c18 as _m

    sys.exit(harness.main(_m))
