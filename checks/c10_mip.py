"""C10 (planner part) -- ILP, TetriSched-Gurobi, TetriSched-CPLEX and Z3 return normally with a complete
decision, and EVERY solution of the model they build is a feasible plan (existing worker, own strategy,
start not before now / release, no worker over capacity at any planned instant)."""
import sys
import time

from z3 import z3

import checks.c11 as c11
from vlib import mipcheck, mipinst, mip2smt

ID = "C10"
BOUNDS = ("C11's instance family (DAGs <=3 (quick) / 4 tasks, whole or with a RUNNING / SCHEDULED / COMPLETED prefix) plus 2-4 independent tasks competing for 1-2 heterogeneous workers "
          "with a running task and known future releases; time discretisation 1-2, horizon <=14")
OUTSIDE = "batching mode; instance numerics concrete; Z3 policy: returned plan and hard constraints only"
ASSUMPTIONS = ["see C11 for capture / translation / read-back validation", "capacity is checked at every start instant of every placement cell (usage only rises at starts)"]
EXPLANATION = ("per instance: schedule() must return; the returned Placements answer each offered, not previously scheduled task exactly once; over all model solutions z3 proves start >= now, start >= release and, "
               "for every worker and every start instant, summed demand of overlapping placements + running occupancy <= capacity; live state unchanged")
REQUIRED_LABELS = ["C10:returns-normally", "C10:complete-decision", "C10:time-not-before-now-or-release", "C10:no-solution-exceeds-capacity", "C10:returned-plan-feasible", "C10:side-effect-free"]


def instances(tier):
    out = []
    for s in c11.instances(tier):
        out.append(dict(s, name="dag-" + s["name"]))
    # independent tasks, heterogeneous workers, a running task, a known future release
    for kind, opts in (("ILP", {"goal": "max_goodput", "enforce_deadlines": True, "lookahead": 6}), ("ILP", {"goal": "max_slack", "enforce_deadlines": False, "lookahead": 6}),
                       ("TSG", {"enforce_deadlines": False, "time_discretization": 1, "lookahead": 6}), ("TSG", {"enforce_deadlines": True, "time_discretization": 2, "lookahead": 6}),
                       ("TSG", {"enforce_deadlines": False, "time_discretization": 5, "plan_ahead": 10}),
                       ("TSC", {"enforce_deadlines": True, "time_discretization": 1}), ("TSC", {"enforce_deadlines": False, "time_discretization": 2}),
                       ("Z3", {"enforce_deadlines": True})):
        for ws in ([1], [2, 1]) if tier == "quick" else ([1], [2], [2, 1], [1, 1]):
            for nt in (2, 3) if tier == "quick" else (2, 3, 4):
                tasks = {"R": {"strategies": [[6, 1]], "deadline": 20, "state": "RUNNING", "worker": 0, "strategy": 0, "at": 0}}
                graphs = [{"name": "GR", "tasks": ["R"], "edges": []}]
                for i in range(nt):
                    tn = f"T{i}"
                    tasks[tn] = {"strategies": [[3 + i % 2, 1]] if i % 2 else [[2, 2], [4, 1]], "deadline": 10 if kind != "TSG" or opts.get("plan_ahead") is None else 10, "state": "RELEASED", "release": 0}
                    if max(ws) < 2:
                        tasks[tn]["strategies"] = [[3 + i % 2, 1]]
                    graphs.append({"name": f"G{i}", "tasks": [tn], "edges": []})
                inst = {"now": 2, "workers": ws, "graphs": graphs, "tasks": tasks}
                out.append({"name": f"indep-{kind}-{opts.get('goal', '')}-d{opts.get('time_discretization', '')}-w{''.join(map(str, ws))}-n{nt}", "kind": kind, "opts": opts, "inst": inst})
        # workers that own different resource types (a CPU-only and a GPU-only worker); every task offers a slow CPU and a fast GPU strategy,
        # and only the GPU strategy meets the deadline: nothing may end up on a worker that lacks the resource type it needs
        if kind in ("ILP", "TSG", "TSC"):
            tasks = {f"T{i}": {"strategies": [[8, {"CPU": 1}], [3, {"GPU": 1}]], "deadline": 7, "state": "RELEASED", "release": 0} for i in range(2)}
            inst = {"now": 1, "workers": [{"CPU": 1}, {"GPU": 1}], "graphs": [{"name": f"G{i}", "tasks": [f"T{i}"], "edges": []} for i in range(2)], "tasks": tasks}
            out.append({"name": f"cpu-worker+gpu-worker-{kind}-{opts.get('goal', '')}-d{opts.get('time_discretization', '')}", "kind": kind, "opts": opts, "inst": inst})
        # three requests of one model: they share ONE WorkProfile and ExecutionStrategy object and compete for a single slot
        if kind in ("TSG", "TSC", "ILP"):
            tasks = {f"Q{i}": {"strategies": [[3, 1]], "deadline": 14, "state": "RELEASED", "release": 0, "profile": "M"} for i in range(3)}
            inst = {"now": 1, "workers": [1], "graphs": [{"name": f"G{i}", "tasks": [f"Q{i}"], "edges": []} for i in range(3)], "tasks": tasks}
            out.append({"name": f"three-requests-sharing-one-strategy-object-{kind}-{opts.get('goal', '')}-d{opts.get('time_discretization', '')}", "kind": kind, "opts": opts, "inst": inst})
        # a chain whose child carries its own (later) release time, offered through the lookahead
        tasks = {"A": {"strategies": [[3, 1]], "deadline": 30, "state": "RELEASED", "release": 0}, "B": {"strategies": [[3, 1]], "deadline": 30, "release": 9}}
        inst = {"now": 1, "workers": [2], "graphs": [{"name": "G", "tasks": ["A", "B"], "edges": [["A", "B"]]}], "tasks": tasks}
        if kind != "TSC":
            o = dict(opts, lookahead=20)
            if kind == "TSG":
                o.pop("plan_ahead", None)
            out.append({"name": f"future-release-{kind}-{opts.get('goal', '')}-d{opts.get('time_discretization', '')}", "kind": kind, "opts": o, "inst": inst})
    return out


def check_instance(spec):
    I = mipinst.build(spec["inst"])
    kind = spec["kind"]
    res = {"queries": 0, "unsat": 0, "sat": 0, "unknown": 0, "solver_s": 0.0, "validated": 0, "models": 0, "skipped": 0, "checked": {}, "violations": [], "errors": []}

    def note(label):
        res["checked"][label] = res["checked"].get(label, 0) + 1

    P, now = I.params, I.now
    note("C10:returns-normally")
    try:
        R = mipinst.run(I, kind, spec["opts"])
    except mip2smt.Untranslatable:
        raise
    except Exception as e:
        import traceback

        tb = traceback.extract_tb(e.__traceback__)
        where = " <- ".join(f"{f.filename.split('/')[-1]}:{f.lineno}" for f in reversed(tb[-3:]))
        res["violations"].append({"label": "C10:returns-normally", "detail": {"exception": f"{type(e).__name__}: {e}"[:160], "where": where}})
        return res
    note("C10:side-effect-free")
    if not R.side_effect_free:
        res["violations"].append({"label": "C10:side-effect-free", "detail": {}})
    # ---- what was offered
    sch = R.scheduler
    offered = I.workload.get_schedulable_tasks(mipinst.ET(now), sch.lookahead, sch.preemptive, sch.retract_schedules, I.worker_pools, sch.policy,
                                               sch.branch_prediction_accuracy, sch.release_taskgraphs)
    offered = [t.name for t in offered]
    ret, cancels = mipinst.returned_placements(R)
    note("C10:complete-decision")
    for tn in set(list(ret) + list(cancels)):
        st = I.tasks[tn].state.name
        n = len(ret.get(tn, [])) + (1 if tn in cancels else 0)
        if n > 1:
            res["violations"].append({"label": "C10:complete-decision", "detail": {"task": tn, "decisions": n}})
        if st in ("RUNNING", "COMPLETED", "CANCELLED") or (tn not in offered and st != "SCHEDULED"):
            res["violations"].append({"label": "C10:complete-decision", "detail": {"task": tn, "state": st, "why": "decision for a task that was not offered / has started"}})
    for tn in offered:
        if I.tasks[tn].state.name in ("RELEASED", "VIRTUAL") and tn not in ret and tn not in cancels:
            res["violations"].append({"label": "C10:complete-decision", "detail": {"task": tn, "why": "offered task got no answer"}})
    # ---- returned plan: feasibility, concretely
    note("C10:returned-plan-feasible")
    plan = []  # (task, worker pos, start, runtime, demand dict)
    for tn, pls in ret.items():
        for pl in pls:
            if pl is None:
                continue
            wpos, t, si, pidx = pl
            if pidx is None or (wpos is None and kind != "Z3"):
                res["violations"].append({"label": "C10:returned-plan-feasible", "detail": {"task": tn, "why": "unknown pool/worker", "placement": pl}})
                continue
            rel = P[tn]["release"]
            if t < now or (rel is not None and rel >= 0 and t < rel):
                res["violations"].append({"label": "C10:time-not-before-now-or-release", "detail": {"task": tn, "start": t, "now": now, "release": rel, "returned": True}})
            if si is None:
                # the Z3 policy reports no strategy: most lenient reading (shortest runtime, smallest demand per resource)
                names = {rn for s_ in P[tn]["strategies"] for rn in s_[1]}
                strat = (min(s_[0] for s_ in P[tn]["strategies"]), {rn: min(s_[1].get(rn, 0) for s_ in P[tn]["strategies"]) for rn in names})
            else:
                strat = P[tn]["strategies"][si]
            if wpos is not None:
                plan.append((tn, wpos, t, strat[0], strat[1]))
    occ = []
    for tn, t in I.tasks.items():
        if t.state.name == "RUNNING":
            wpos = [wk.id for (_, wk, _) in I.workers].index(t.current_placement.worker_id)
            si = mipinst._sidx(I, tn, t.current_placement.execution_strategy)
            occ.append((tn, wpos, now, t.remaining_time.time, P[tn]["strategies"][si][1]))
        elif t.state.name == "SCHEDULED" and tn not in ret:
            wid = t.current_placement.worker_id
            if wid is not None:
                wpos = [wk.id for (_, wk, _) in I.workers].index(wid)
                si = mipinst._sidx(I, tn, t.current_placement.execution_strategy)
                occ.append((tn, wpos, t.expected_start_time.time, P[tn]["strategies"][si][0], P[tn]["strategies"][si][1]))
    allp = plan + occ
    for (tn, wpos, t0, rt, dem) in plan:
        caps = I.workers[wpos][2]
        for rn, cap in caps.items():
            use = sum(d.get(rn, 0) for (_, w2, s2, r2, d) in allp if w2 == wpos and s2 <= t0 < s2 + r2)
            if use > cap:
                res["violations"].append({"label": "C10:returned-plan-feasible", "detail": {"worker": wpos, "resource": rn, "instant": t0, "use": use, "capacity": cap,
                                                                                            "plan": [(a, b, c, d) for (a, b, c, d, e) in allp if b == wpos]}})
                break
    if R.model is None:
        res["skipped"] = 1
        return res
    res["models"] = 1
    if kind == "Z3":
        return res
    s = R.zm.solver()

    def ask(extra):
        t0 = time.time()
        s.push()
        s.add(extra)
        r = s.check()
        m = s.model() if r == z3.sat else None
        s.pop()
        res["solver_s"] += time.time() - t0
        res["queries"] += 1
        res[str(r)] = res.get(str(r), 0) + 1
        return str(r), m

    r, m = ask(z3.BoolVal(True))
    if r == "sat":
        vals = mip2smt.model_values(R.zm, m)
        pred = mipinst.predicted_placements(R, vals)
        real, st = mipinst.real(R, vals)
        res["validated"] += 1
        if real is None:
            res["errors"].append(f"real solver rejects a z3 solution of the translated model (status {st})")
        elif real != pred:
            res["errors"].append(f"read-back relation disagrees with get_placements(): predicted {pred}, real {real}")
        res["sample"] = {"model_size": R.zm.stats, "one_solution": pred}
    # ---- time bounds over all solutions
    cells = []  # (task, wpos, start term, runtime, demand, 0/1 term)
    for tn, rd in R.read.items():
        for (wpos, t, si, term) in rd["cells"]:
            if z3.is_int_value(term) and term.as_long() == 0:
                continue
            st_ = rd["start"] if t is None else z3.IntVal(t)
            rt, dem = P[tn]["strategies"][si]
            if rd["prev"]:
                rt = I.tasks[tn].remaining_time.time  # a running task keeps its resources for its remaining time
            cells.append((tn, wpos, st_, rt, dem, term, rd["prev"]))
    for tn, rd in R.read.items():
        if rd["prev"]:
            continue
        note("C10:time-not-before-now-or-release")
        rel = P[tn]["release"]
        bad = [z3.And(term == 1, z3.Or(st_ < now, st_ < (rel if rel is not None and rel >= 0 else now))) for (t2, wpos, st_, rt, dem, term, prev) in cells if t2 == tn]
        if bad:
            r, m = ask(z3.Or(bad))
            if r == "sat":
                vals = mip2smt.model_values(R.zm, m)
                real, st = mipinst.real(R, vals)
                res["validated"] += 1
                if real is not None and real.get(tn) is not None and (real[tn][1] < now or (rel is not None and rel >= 0 and real[tn][1] < rel)):
                    res["violations"].append({"label": "C10:time-not-before-now-or-release", "detail": {"task": tn, "placement": real[tn], "now": now, "release": rel}})
                else:
                    res["errors"].append(f"time-bound counterexample for {tn} not reproduced ({st}, {real})")
    # ---- capacity over all solutions: at the start instant of every cell
    all_resources = sorted({rn for (_, _, c_) in I.workers for rn in c_} | {rn for p_ in P.values() for (_, dem_) in p_["strategies"] for rn in dem_})
    for wpos, (pi, wk, caps) in enumerate(I.workers):
        mine = [c for c in cells if c[1] == wpos]
        for rn in all_resources:  # also the resource types this worker does not own at all (capacity 0)
            cap = caps.get(rn, 0)
            for (tn, _, st_i, rt_i, dem_i, term_i, prev_i) in mine:
                if prev_i:
                    continue
                note("C10:no-solution-exceeds-capacity")
                use = z3.Sum([z3.If(z3.And(term_j == 1, st_j <= st_i, st_i < st_j + rt_j), dem_j.get(rn, 0), 0) for (_, _, st_j, rt_j, dem_j, term_j, _) in mine])
                r, m = ask(z3.And(term_i == 1, use > cap))
                if r == "sat":
                    vals = mip2smt.model_values(R.zm, m)
                    real, st = mipinst.real(R, vals)
                    res["validated"] += 1
                    if real is None:
                        res["errors"].append(f"capacity counterexample not accepted by the real solver (status {st})")
                        continue
                    # concrete recomputation on the real placements (+ running occupancy)
                    pl2 = [(a, rp[0], rp[1], P[a]["strategies"][rp[2]][0], P[a]["strategies"][rp[2]][1]) for a, rp in real.items() if rp is not None] + occ
                    over = None
                    for (a, w2, s2, r2, d2) in pl2:
                        if w2 != wpos:
                            continue
                        u = sum(d.get(rn, 0) for (_, w3, s3, r3, d) in pl2 if w3 == wpos and s3 <= s2 < s3 + r3)
                        if u > cap:
                            over = {"worker": wpos, "resource": rn, "instant": s2, "use": u, "capacity": cap, "plan": [(x[0], x[2], x[3]) for x in pl2 if x[1] == wpos]}
                            break
                    if over:
                        res["violations"].append({"label": "C10:no-solution-exceeds-capacity", "detail": over})
                        break
                    else:
                        res["errors"].append("capacity counterexample did not reproduce on the real placements")
    return res


def signature(spec, v):
    d = v.get("detail") or {}
    if v["label"] == "C10:returns-normally":
        if spec["kind"] == "ILP" and "'Start'" in d.get("exception", ""):
            return "ilp-crashes-on-rescheduled-task-with-incompatible-worker-strategy-pair"
        if spec["kind"] == "Z3" and "extract" in d.get("exception", ""):
            return "z3-policy-crashes-invalid-extract"
        return f"{spec['kind']}:crash:{d.get('exception', '')[:60]}"
    if spec["kind"] == "Z3" and v["label"] == "C10:returned-plan-feasible":
        return "z3-policy-ignores-capacity-held-by-running-and-scheduled-tasks"
    return f"{spec['kind']}:{v['label']}"


if __name__ == "__main__":
    import checks.c10_mip as _m

    sys.exit(mipcheck.main(_m))
