"""C04 -- resource ledger conservation.

(a) one inductive step on `Resources` from an arbitrary state satisfying the
    representation invariant, with symbolic quantities;
(b) bounded operation histories on Worker / WorkerPool (ops chosen by the solver,
    quantities and capacities symbolic), checked against an independent ledger.
"""
import copy as _copy
import sys

from vlib import harness, pysym, stubs
from vlib.pysym import sand, sany, simplies, snot, sor

stubs.install()

from utils import EventTime  # noqa: E402
from workers import Worker, WorkerPool, WorkerPools  # noqa: E402
from workload import (BatchStrategy, ExecutionStrategies, ExecutionStrategy, Job, Resource, Resources, Task,  # noqa: E402
                      WorkProfile)

ID = "C04"
US = EventTime.Unit.US
Q = 2 ** 20
ANCHORS = [("workload/resources.py", 169, 203), ("workload/resources.py", 255, 276), ("workers/workers.py", 196, 231),
           ("workload/resources.py", 315, 345), ("workers/workers.py", 429, 477), ("workers/workers.py", 849, 894)]
BOUNDS = ("(a) Resources: key sets over {CPU:a, CPU:b, GPU:g, CPU:any}, <=2 computations with <=2 allocation entries each, all quantities symbolic in [0,2^20], "
          "one operation from {allocate, allocate_multiple, deallocate, copy, deepcopy, +}; (b) Worker/WorkerPool(2 workers)/WorkerPools histories of <=3 (quick) / "
          "4 (thorough) operations chosen by the solver from {place(task,strategy), place(task,batch), remove(task), load(profile), evict(profile), step, "
          "copy-then-operate, deepcopy} over 3 tasks, 2 strategies, 2 batch strategies (batch_size 2), 1 profile, symbolic demands and capacities")
OUTSIDE = "histories longer than 4 operations; more than 2 workers per pool; preemption/migration; negative quantities; whole-run clause (checked by the simulation-level checks)"
ASSUMPTIONS = ["(a) pre-states are constructed directly and assumed to satisfy I: avail>=0, entry>=0, avail+sum(entries)=total per key; counterexamples are replayed by rebuilding the pre-state through the public API",
               "null loggers; utils.type/int/round shadows (identity on concrete values)"]
EXPLANATION = "all feasible paths of the real Resources/Worker/WorkerPool methods over symbolic quantities; histories enumerated by solver choice variables"
LIMITS = {"samples_per_job": 1, "validate_per_job": 1}
REQUIRED_LABELS = ["step:invariant", "alloc:exact", "alloc:refused-unchanged", "multi:atomic", "dealloc:exact", "copy:equal", "copy:independent",
                   "deepcopy:empty", "hist:held-equals-ledger", "hist:conservation", "hist:refused-unchanged", "hist:empty-restores"]

NULL = stubs.NULL


def worlds(tier):
    ws = []
    keysets = [["CPU:a"], ["CPU:a", "GPU:g"], ["CPU:a", "CPU:b"], ["CPU:a", "CPU:b", "GPU:g"], ["CPU:any", "GPU:g"]]
    ops = ["allocate", "allocate_multiple", "deallocate", "copy", "deepcopy", "add"]
    for ks in keysets:
        for op in ops:
            if tier == "quick" and len(ks) == 3 and op in ("copy", "add"):
                continue
            ws.append({"name": f"res-{'+'.join(ks)}-{op}", "kind": "res", "keys": ks, "op": op, "weight": 4 ** len(ks),
                       "split": 5 if len(ks) >= 2 else None, "ncomp": 1 if (tier == "quick" and len(ks) == 3) else 2})
    for level, n in (("worker", 3), ("pool", 2)) if tier == "quick" else (("worker", 4), ("pool", 4)):
        ws.append({"name": f"hist-{level}-len{n}", "kind": "hist", "level": level, "len": n, "split": 7 if tier == "quick" else 9,
                   "weight": 100})
    ws.append({"name": "hist-worker-zero-demand", "kind": "hist", "level": "worker", "len": 2, "zero_demand": True, "alphabet": "zero", "weight": 3})
    if tier == "thorough":
        ws.append({"name": "hist-worker-batchfocus-len5", "kind": "hist", "level": "worker", "len": 5, "split": 6, "weight": 200,
                   "alphabet": "batch"})
    return ws


def R(key):
    name, rid = key.split(":")
    return Resource(name=name, _id=rid)


class Comp:
    """Stands in for a Task / WorkProfile as allocation owner (only hash/eq are used)."""

    def __init__(self, n):
        self.name = n

    def __repr__(self):
        return self.name


def getters(res, names, keys):
    out = {}
    for nm in names:
        r = Resource(name=nm, _id="any")
        out[("avail", nm)] = res.get_available_quantity(r)
        out[("alloc", nm)] = res.get_allocated_quantity(r)
        out[("total", nm)] = res.get_total_quantity(r)
    for k in keys:
        if not k.endswith(":any"):
            r = R(k)
            out[("avail", k)] = res.get_available_quantity(r)
            out[("alloc", k)] = res.get_allocated_quantity(r)
            out[("total", k)] = res.get_total_quantity(r)
    return out


def same(g1, g2):
    return sand(*[g1[k] == g2[k] for k in g1])


def owned(res, comp, names):
    """per resource name: quantity recorded for comp (without the defaultdict side effect)."""
    ent = res._current_allocations.get(comp, [])
    return {nm: sum(q for (r, q) in ent if r.name == nm) for nm in names}


def run(env, w):
    if w["kind"] == "res":
        run_res(env, w)
    else:
        run_hist(env, w)
    harness.finish_path(env)


# --------------------------------------------------------------------------- (a)
def build_state(env, keys, ncomp=2, extra_any=False):
    """Arbitrary pre-state satisfying the invariant, built through the public API:
    totals symbolic; two computations allocate symbolic amounts of each key in turn."""
    tot = {k: env.int("tot_" + k.replace(":", "_"), 0, Q) for k in keys}
    res = Resources({R(k): tot[k] for k in keys}, _logger=NULL)
    comps = [Comp("c0"), Comp("c1")]
    for ci, c in enumerate(comps[:ncomp]):
        for k in keys:
            if env.bool(f"has_{ci}_{k.replace(':', '_')}"):
                q = env.int(f"q_{ci}_{k.replace(':', '_')}", 0, Q)
                rk = R(k)
                env.assume(res.get_available_quantity(rk) >= q)
                res.allocate(rk, c, q)
    if extra_any:
        # the first computation also holds an 'any' request of the first resource name: it lands on instances it may already hold
        # (two records of one computation on one instance)
        nm0 = keys[0].split(":")[0]
        if env.bool("has_any_0"):
            qa = env.int("q_any_0", 0, Q)
            ra = Resource(name=nm0, _id="any")
            env.assume(res.get_available_quantity(ra) >= qa)
            res.allocate(ra, comps[0], qa)
    return res, comps, tot


def invariant(env, res, keys, label):
    names = sorted({k.split(":")[0] for k in keys})
    for nm in names:
        r = Resource(name=nm, _id="any")
        a, al, t = res.get_available_quantity(r), res.get_allocated_quantity(r), res.get_total_quantity(r)
        env.require(label, sand(a >= 0, al >= 0, a + al == t))
        recorded = sum(q for ent in res._current_allocations.values() for (rr, q) in ent if rr.name == nm)
        env.require(label, recorded == al)
    for k, v in res._resource_vector.items():
        env.require(label, v >= 0)


def run_res(env, w):
    keys, op = w["keys"], w["op"]
    names = sorted({k.split(":")[0] for k in keys})
    res, comps, tot = build_state(env, keys, w.get("ncomp", 2), extra_any=(op == "deallocate"))
    invariant(env, res, keys, "pre:invariant")
    before = getters(res, names, keys)
    own0 = [owned(res, c, names) for c in comps]
    tgt = comps[env.choose(2, "tgt")]
    ti = comps.index(tgt)
    if op == "allocate":
        reqs = sorted(set([n + ":any" for n in names] + [k for k in keys]))
        rk = reqs[env.choose(len(reqs), "req")]
        q = env.int("q", 0, Q)
        r = R(rk)
        nm = r.name
        fits = res.get_available_quantity(r) >= q
        try:
            res.allocate(r, tgt, q)
            ok = True
        except ValueError:
            ok = False
        env.require("alloc:refuses-iff-unavailable", harness_iff(ok, fits))
        after = getters(res, names, keys)
        if ok:
            env.require("alloc:exact", sand(after[("avail", nm)] == before[("avail", nm)] - q,
                                            owned(res, tgt, names)[nm] == own0[ti][nm] + q))
            for o in names:
                if o != nm:
                    env.require("alloc:exact", sand(after[("avail", o)] == before[("avail", o)], owned(res, tgt, names)[o] == own0[ti][o]))
            if not rk.endswith(":any"):
                env.require("alloc:exact", after[("avail", rk)] == before[("avail", rk)] - q)
            env.require("alloc:exact", sand(*[owned(res, comps[1 - ti], names)[o] == own0[1 - ti][o] for o in names]))
        else:
            env.require("alloc:refused-unchanged", same(before, after))
            env.require("alloc:refused-unchanged", sand(*[owned(res, c, names)[o] == own0[i][o] for i, c in enumerate(comps) for o in names]))
    elif op == "allocate_multiple":
        shapes = [[n + ":any" for n in names]]
        if "CPU:a" in keys:
            shapes.append(["CPU:any", "CPU:a"])
            shapes.append(["CPU:a"] + (["GPU:any"] if "GPU" in names else []))
        if "CPU:b" in keys:
            shapes.append(["CPU:a", "CPU:b"])
        shape = shapes[env.choose(len(shapes), "shape")]
        qs = {k: env.int("rq_" + k.replace(":", "_"), 0, Q) for k in shape}
        req = Resources({R(k): qs[k] for k in shape}, _logger=NULL)
        try:
            res.allocate_multiple(req, tgt)
            ok = True
        except ValueError:
            ok = False
        after = getters(res, names, keys)
        if ok:
            for nm in names:
                d = sum(qs[k] for k in shape if k.split(":")[0] == nm)
                env.require("multi:exact", sand(after[("avail", nm)] == before[("avail", nm)] - d, owned(res, tgt, names)[nm] == own0[ti][nm] + d))
        else:
            env.require("multi:atomic", same(before, after), info=f"shape={shape}")
            env.require("multi:atomic", sand(*[owned(res, c, names)[o] == own0[i][o] for i, c in enumerate(comps) for o in names]), info=f"shape={shape}")
        # a request that fits per resource name in aggregate and uses only 'any' ids must succeed
        if all(k.endswith(":any") for k in shape):
            fits = sand(*[before[("avail", k.split(":")[0])] >= qs[k] for k in shape])
            env.require("multi:accepts-when-fits", harness_iff(ok, fits))
    elif op == "deallocate":
        known = tgt in res._current_allocations
        try:
            res.deallocate(tgt)
            ok = True
        except ValueError:
            ok = False
        after = getters(res, names, keys)
        env.require("dealloc:refuses-unknown", ok == known)
        if ok:
            for nm in names:
                env.require("dealloc:exact", after[("avail", nm)] == before[("avail", nm)] + own0[ti][nm])
                env.require("dealloc:exact", owned(res, tgt, names)[nm] == 0)
                env.require("dealloc:exact", owned(res, comps[1 - ti], names)[nm] == own0[1 - ti][nm])
        else:
            env.require("dealloc:exact", same(before, after))
        # removing everything restores full capacity
        for c in comps:
            if c in res._current_allocations:
                res.deallocate(c)
        fin = getters(res, names, keys)
        for nm in names:
            env.require("dealloc:all-restores-total", sand(fin[("avail", nm)] == fin[("total", nm)], fin[("alloc", nm)] == 0))
    elif op == "copy":
        cp = _copy.copy(res)
        env.require("copy:equal", same(before, getters(cp, names, keys)))
        env.require("copy:equal", sand(*[owned(cp, c, names)[o] == own0[i][o] for i, c in enumerate(comps) for o in names]))
        invariant(env, cp, keys, "step:invariant")
        # operate on the copy: the original must not move (and vice versa)
        q = env.int("q", 0, Q)
        r = Resource(name=names[0], _id="any")
        try:
            cp.allocate(r, tgt, q)
        except ValueError:
            pass
        if comps[1 - ti] in cp._current_allocations:
            cp.deallocate(comps[1 - ti])
        env.require("copy:independent", same(before, getters(res, names, keys)))
        env.require("copy:independent", sand(*[owned(res, c, names)[o] == own0[i][o] for i, c in enumerate(comps) for o in names]))
        mid = getters(cp, names, keys)
        try:
            res.allocate(r, tgt, q)
        except ValueError:
            pass
        env.require("copy:independent", same(mid, getters(cp, names, keys)))
    elif op == "deepcopy":
        dc = _copy.deepcopy(res)
        g = getters(dc, names, keys)
        for nm in names:
            env.require("deepcopy:empty", sand(g[("avail", nm)] == before[("total", nm)], g[("alloc", nm)] == 0, g[("total", nm)] == before[("total", nm)]))
        env.require("deepcopy:empty", all(len(v) == 0 for v in dc._current_allocations.values()))
        q = env.int("q", 0, Q)
        try:
            dc.allocate(Resource(name=names[0], _id="any"), tgt, q)
        except ValueError:
            pass
        env.require("copy:independent", same(before, getters(res, names, keys)))
    elif op == "add":
        tot2 = env.int("tot2", 0, Q)
        q2 = env.int("q2", 0, Q)
        env.assume(q2 <= tot2)
        other = Resources({Resource(name=names[0], _id="z"): tot2}, _logger=NULL)
        # the second operand's allocation may belong to a computation that also holds resources in the first
        # (a WorkProfile loaded on two workers of a pool, whose Resources are summed for utilisation reports)
        c2 = tgt if env.bool("same_comp") else Comp("c2")
        other.allocate(Resource(name=names[0], _id="any"), c2, q2)
        other_before = getters(other, [names[0]], [])
        s = res + other
        g = getters(s, names, keys)
        for nm in names:
            extra_t = tot2 if nm == names[0] else 0
            extra_q = q2 if nm == names[0] else 0
            env.require("add:sums", sand(g[("total", nm)] == before[("total", nm)] + extra_t,
                                         g[("alloc", nm)] == before[("alloc", nm)] + extra_q,
                                         g[("avail", nm)] == before[("avail", nm)] + extra_t - extra_q))
        env.require("copy:independent", same(before, getters(res, names, keys)))
        env.require("add:operands-untouched", same(other_before, getters(other, [names[0]], [])))
        env.require("add:operands-untouched", sand(owned(other, c2, names)[names[0]] == q2, *[owned(res, c, names)[o] == own0[i][o] for i, c in enumerate(comps) for o in names]))
        invariant(env, s, keys + [names[0] + ":z"], "step:invariant")
        other.deallocate(c2)
        g2 = getters(other, [names[0]], [])
        env.require("add:operands-untouched", sand(g2[("avail", names[0])] == tot2, g2[("alloc", names[0])] == 0), info="releasing the second operand's allocation after the sum")
    invariant(env, res, keys, "step:invariant")
    env.observe("avail", [res.get_available_quantity(Resource(name=nm, _id="any")) for nm in names])


def harness_iff(a, b):
    return sor(sand(a, b), sand(snot(a), snot(b)))


# --------------------------------------------------------------------------- (b)
def mk_task(i):
    return Task(name=f"T{i}", task_graph="G", job=Job(name=f"J{i}"), deadline=EventTime(100, US), _logger=NULL)


def run_hist(env, w):
    level, L = w["level"], w["len"]
    names = ["CPU", "GPU"]
    # demands (>= 1: a zero-quantity request leaves no allocation record, see the zero-demand world)
    dlo = 0 if w.get("zero_demand") else 1
    sd = [{"CPU": env.int("s0_cpu", dlo, Q)}, {"CPU": env.int("s1_cpu", dlo, Q), "GPU": env.int("s1_gpu", dlo, Q)}]
    strat = [ExecutionStrategy(resources=Resources({Resource(name=n, _id="any"): q for n, q in d.items()}, _logger=NULL),
                               batch_size=1, runtime=EventTime(10, US)) for d in sd]
    bbase = ExecutionStrategy(resources=Resources({Resource(name="CPU", _id="any"): env.int("b_cpu", dlo, Q)}, _logger=NULL),
                              batch_size=2, runtime=EventTime(10, US))
    bdem = {"CPU": bbase.resources.get_total_quantity(Resource(name="CPU", _id="any"))}
    batches = [BatchStrategy(bbase), BatchStrategy(bbase)]
    pd = {"GPU": env.int("p_gpu", dlo, Q)}
    load_strat = ExecutionStrategy(resources=Resources({Resource(name="GPU", _id="any"): pd["GPU"]}, _logger=NULL), batch_size=1,
                                   runtime=EventTime(3, US))  # one step of 3us completes the load
    prof = WorkProfile(name="P", loading_strategies=ExecutionStrategies([load_strat]))
    tasks = [mk_task(i) for i in range(3)]
    nworkers = 1 if level == "worker" else 2
    caps = [{"CPU": env.int(f"cap{k}_cpu", 0, Q), "GPU": env.int(f"cap{k}_gpu", 0, Q)} for k in range(nworkers)]
    workers = [Worker(name=f"W{k}", resources=Resources({Resource(name="CPU"): caps[k]["CPU"], Resource(name="GPU"): caps[k]["GPU"]}, _logger=NULL),
                      _logger=NULL) for k in range(nworkers)]
    pool = WorkerPool(name="P0", workers=workers, _logger=NULL)
    pools = WorkerPools([pool])

    # independent ledger: task -> (worker index, kind, strategy index)
    led = {}
    prof_on = set()  # worker indices with the profile loaded/pending

    def held(k, nm, ledger=None, prof_set=None):
        ledger = led if ledger is None else ledger
        prof_set = prof_on if prof_set is None else prof_set
        s = 0
        seen_b = set()
        for t, (wk, kind, si) in ledger.items():
            if wk != k:
                continue
            if kind == "s":
                s = s + sd[si].get(nm, 0)
            elif si not in seen_b:
                seen_b.add(si)
                s = s + bdem.get(nm, 0)
        if k in prof_set:
            s = s + pd.get(nm, 0)
        return s

    def snapshot(ws):
        out = {}
        for k, wk in enumerate(ws):
            for nm in names:
                r = Resource(name=nm, _id="any")
                out[(k, nm, "avail")] = wk.resources.get_available_quantity(r)
                out[(k, nm, "alloc")] = wk.resources.get_allocated_quantity(r)
            out[(k, "tasks")] = sorted(t.name for t in wk.get_placed_tasks())
            # how long until the profile is usable on this worker (0 = loaded, -1 = not requested, > 0 = still loading)
            out[(k, "profile", "avail")] = wk.is_available(prof).time
        return out

    def snap_equal(a, b, loading_may_progress=False):
        conds = []
        for key in a:
            if loading_may_progress and key[1:] == ("profile", "avail"):
                continue  # stepping the worker advances a pending load
            if key[-1] == "tasks":
                conds.append(a[key] == b[key])
            else:
                conds.append(a[key] == b[key])
        return sand(*conds)

    def check_state(ws, ledger, prof_set, tag):
        if level == "pool" and ws is workers:
            pool.resources  # what the simulator reads for every utilisation row: a read must not change anything
        for k, wk in enumerate(ws):
            for nm in names:
                r = Resource(name=nm, _id="any")
                a = wk.resources.get_available_quantity(r)
                al = wk.resources.get_allocated_quantity(r)
                t = wk.resources.get_total_quantity(r)
                env.require("hist:conservation", sand(a >= 0, a + al == t, t == caps[k][nm]), info=tag)
                env.require("hist:held-equals-ledger", al == held(k, nm, ledger, prof_set), info=tag)
            env.require("hist:residents", sorted(t.name for t in wk.get_placed_tasks()) == sorted(t.name for t, v in ledger.items() if v[0] == k), info=tag)

    alphabet = ["place_s0", "place_s1", "place_b0", "place_b1", "remove", "load", "evict"]
    if w.get("alphabet") == "zero":
        alphabet = ["load", "evict"]
    if w.get("alphabet") == "batch":
        alphabet = ["place_b0", "place_b1", "remove", "place_s0"]
    trace = []
    for step in range(L + 4):
        if step < L:
            op = alphabet[env.choose(len(alphabet), f"op{step}")]
        else:
            # a copy while a load may still be pending, a step that completes it, a copy with the profile available, a deepcopy
            op = ["copy", "step", "copy", "deepcopy"][step - L]
        before = snapshot(workers)
        tag = f"{trace}+{op}"
        env.ctx = tag
        if op.startswith("place"):
            free = [t for t in tasks if t not in led]
            if not free:
                env.assume(False)
            t = free[0]  # tasks are interchangeable: take the first non-resident one
            kind, si = op[6], int(op[7])
            st = strat[si] if kind == "s" else batches[si]
            if level == "worker":
                wk = 0
                fits = workers[0].can_accomodate_strategy(st)
                exp_fit = expected_fit(env, 0, kind, si, sd, bdem, caps, held, led, names)
                full = kind == "b" and sum(1 for v in led.values() if v == (0, "b", si)) >= 2
                if not full:
                    env.require("hist:can-accomodate-iff-fits", harness_iff(fits, exp_fit), info=tag)
                try:
                    workers[0].place_task(t, st)
                    ok = True
                except (ValueError, RuntimeError):
                    ok = False
                env.require("hist:place-succeeds-iff-fits", harness_iff(ok, exp_fit), info=tag)
            else:
                try:
                    ok = pool.place_task(t, execution_strategy=st)
                except RuntimeError:  # over-full batch
                    ok = False
                wk = None
                if ok:
                    wid = pool._placed_tasks[t]
                    wk = [w_.id for w_ in workers].index(wid)
                exp_any = sor(*[expected_fit(env, k, kind, si, sd, bdem, caps, held, led, names) for k in range(nworkers)])
                batch_full_somewhere = kind == "b" and any(sum(1 for v in led.values() if v == (k, "b", si)) >= 2 for k in range(nworkers))
                if not batch_full_somewhere:
                    env.require("hist:place-succeeds-iff-fits", harness_iff(ok, exp_any), info=tag)
                else:
                    env.require("hist:place-succeeds-iff-fits", simplies(ok, exp_any), info=tag)
            if ok:
                led[t] = (wk, kind, si)
            else:
                env.require("hist:refused-unchanged", snap_equal(before, snapshot(workers)), info=tag)
        elif op == "remove":
            # remove the most recently placed resident task, or (if none) a non-resident one: must be refused
            if led:
                t = list(led)[env.choose(len(led), f"rm{step}")]
                if level == "worker":
                    workers[0].remove_task(EventTime(step, US), t)
                else:
                    pool.remove_task(EventTime(step, US), t)
                del led[t]
            else:
                try:
                    if level == "worker":
                        workers[0].remove_task(EventTime(step, US), tasks[0])
                    else:
                        pool.remove_task(EventTime(step, US), tasks[0])
                    ok = True
                except ValueError:
                    ok = False
                env.require("hist:refused-unchanged", (not ok), info=tag)
                env.require("hist:refused-unchanged", snap_equal(before, snapshot(workers)), info=tag)
        elif op == "load":
            k = 0 if nworkers == 1 else env.choose(nworkers, f"lw{step}")
            if k in prof_on:
                env.assume(False)
            fitsp = caps[k]["GPU"] - held(k, "GPU") >= pd["GPU"]
            try:
                if level == "worker":
                    workers[k].load_profile(prof, load_strat)
                else:
                    pool.load_profile(prof, load_strat, worker_id=workers[k].id)
                ok = True
            except ValueError:
                ok = False
            env.require("hist:load-succeeds-iff-fits", harness_iff(ok, fitsp), info=tag)
            if ok:
                prof_on.add(k)
            else:
                env.require("hist:refused-unchanged", snap_equal(before, snapshot(workers)), info=tag)
        elif op == "evict":
            k = 0 if nworkers == 1 else env.choose(nworkers, f"ew{step}")
            try:
                if level == "worker":
                    workers[k].evict_profile(prof)
                else:
                    pool.evict_profile(prof, worker_id=workers[k].id)
                ok = True
            except ValueError:
                ok = False
            env.require("hist:evict-refuses-unknown", ok == (k in prof_on), info=tag)
            if ok:
                prof_on.discard(k)
            else:
                env.require("hist:refused-unchanged", snap_equal(before, snapshot(workers)), info=tag)
        elif op == "step":
            done = pool.step(EventTime(step, US), EventTime(3, US)) if level == "pool" else workers[0].step(EventTime(step, US), EventTime(3, US))
            env.require("hist:step-keeps-ledger", snap_equal(before, snapshot(workers), loading_may_progress=True), info=tag)
        elif op == "copy":
            cws = _copy.copy(pools) if level == "pool" else None
            cw = [w_ for p_ in cws.worker_pools for w_ in p_.workers] if cws is not None else [_copy.copy(workers[0])]
            env.require("copy:equal", snap_equal(before, snapshot(cw)), info=tag)
            cled, cprof = dict(led), set(prof_on)
            # operate on the copy (what schedulers do): place a fresh task with s0, remove a resident one
            free = [t for t in tasks if t not in cled]
            if free:
                st = strat[0]
                if level == "worker":
                    try:
                        cw[0].place_task(free[0], st)
                        cled[free[0]] = (0, "s", 0)
                    except ValueError:
                        pass
                else:
                    cp = list(cws.worker_pools)[0]
                    if cp.place_task(free[0], execution_strategy=st):
                        cled[free[0]] = ([w_.id for w_ in cw].index(cp._placed_tasks[free[0]]), "s", 0)
            if led:
                t = list(led)[env.choose(len(led), f"crm{step}")]
                try:
                    if level == "worker":
                        cw[0].remove_task(EventTime(step, US), t)
                    else:
                        list(cws.worker_pools)[0].remove_task(EventTime(step, US), t)
                    removed = True
                except (ValueError, RuntimeError) as e:
                    removed = False
                env.require("copy:same-occupancy-removable", removed, info=tag + f" remove {t.name} kind={led[t][1]}")
                if removed:
                    del cled[t]
            if cprof:
                # schedulers that plan model loading evict profiles on their copy (Clockwork's load thread): the original keeps its profile
                kk = sorted(cprof)[0]
                cw[kk].evict_profile(prof)
                cprof.discard(kk)
            check_state(cw, cled, cprof, tag + "@copy")
            env.require("copy:independent", snap_equal(before, snapshot(workers)), info=tag)
        elif op == "deepcopy":
            dws = _copy.deepcopy(pools) if level == "pool" else None
            dw = [w_ for p_ in dws.worker_pools for w_ in p_.workers] if dws is not None else [_copy.deepcopy(workers[0])]
            for k, wk in enumerate(dw):
                for nm in names:
                    r = Resource(name=nm, _id="any")
                    env.require("deepcopy:empty", sand(wk.resources.get_available_quantity(r) == caps[k][nm], wk.resources.get_allocated_quantity(r) == 0), info=tag)
                env.require("deepcopy:empty", wk.get_placed_tasks() == [], info=tag)
            try:
                dw[0].place_task(tasks[2], strat[0])
            except ValueError:
                pass
            env.require("copy:independent", snap_equal(before, snapshot(workers)), info=tag)
        trace.append(op)
        check_state(workers, led, prof_on, tag)
    # drain everything: full capacity must come back
    env.ctx = f"{trace}+drain"
    for t in list(led):
        if level == "worker":
            workers[0].remove_task(EventTime(99, US), t)
        else:
            pool.remove_task(EventTime(99, US), t)
        del led[t]
    for k in list(prof_on):
        workers[k].evict_profile(prof)
        prof_on.discard(k)
    for k, wk in enumerate(workers):
        for nm in names:
            r = Resource(name=nm, _id="any")
            env.require("hist:empty-restores", sand(wk.resources.get_available_quantity(r) == caps[k][nm], wk.resources.get_allocated_quantity(r) == 0), info=str(trace))
    env.observe("trace", list(trace))
    env.observe("final_avail", [wk.resources.get_available_quantity(Resource(name="CPU", _id="any")) for wk in workers])


def expected_fit(env, k, kind, si, sd, bdem, caps, held, led, names):
    """Reference fit test from the ledger: demand <= capacity - held for every resource;
    a batch strategy that already has a resident member on this worker always fits."""
    members = sum(1 for v in led.values() if v == (k, "b", si))
    if kind == "b" and members >= 2:
        return False  # batch_size is 2: a full batch refuses further members
    if kind == "b" and members >= 1:
        return True
    d = sd[si] if kind == "s" else bdem
    return sand(*[caps[k][nm] - held(k, nm) >= d.get(nm, 0) for nm in names])


def signature(world, v, failures):
    lab = v["label"]
    info = v.get("info") or ""
    if world.get("zero_demand"):
        return "zero-quantity-demand-leaves-no-allocation-record"
    if lab == "multi:atomic":
        return "allocate_multiple-partial-on-mixed-any-and-specific-request"
    if (lab.startswith("hist:") or lab.startswith("crash:")) and ("place_b" in info):
        return "stale-empty-batch-after-last-member-removed:" + lab
    if lab.startswith("copy:same-occupancy-removable") and "kind=b" in info:
        return "copy-drops-batch-bookkeeping"
    return lab


if __name__ == "__main__":
    import checks.c04 as _m

    sys.exit(harness.main(_m))
