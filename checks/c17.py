"""C17 -- graph algorithms agree with their definitions on every (bounded) digraph.

Edges are solver booleans (one per ordered pair or per forward pair), node weights are
symbolic positive integers; the real Graph / TaskGraph / JobGraph methods are executed
on every feasible path and compared with reference definitions evaluated on the path's
concrete structure, weight comparisons being z3 queries."""
import itertools
import sys

from vlib import harness, pysym, stubs
from vlib.pysym import sand, sany, simplies, snot, sor

stubs.install()

from utils import EventTime  # noqa: E402
from workload import (ExecutionStrategies, ExecutionStrategy, Job, JobGraph, Resource, Resources, Task,  # noqa: E402
                      TaskGraph, WorkProfile)

ID = "C17"
US = EventTime.Unit.US
ANCHORS = [("workload/graph.py", 241, 271), ("workload/graph.py", 273, 308), ("workload/graph.py", 122, 148),
           ("workload/graph.py", 310, 343), ("workload/graph.py", 189, 239), ("workload/tasks.py", 1639, 1659),
           ("workload/jobs.py", 943, 986)]
BOUNDS = ("quick: every labelled digraph on 3 nodes (all 6 ordered pairs symbolic, cycles included), every DAG on 4 nodes "
          "under 3 node-insertion orders, 5-node DAGs with <=6 forward edges; thorough: every labelled digraph on 4 nodes "
          "(4096), every 5-node DAG (1024 forward-edge sets) under 2 insertion orders, 6-node DAGs with <=7 forward edges. Node weights: symbolic integers "
          "in [1, 2^30] (ties included), runtimes in us and, in the mixed-unit worlds, ms; zero weights only in the critical-path/completion-time clause (thorough).")
OUTSIDE = "graphs with more than 6 nodes, the 'random DAGs up to 40 nodes' clause (sampling is not this technique), duplicate edges"
ASSUMPTIONS = ["reference definitions (reachability, path enumeration, depth) are computed by the harness on the concrete edge set of each path",
               "weights compared by z3 over linear integer arithmetic",
               "null loggers; utils.type/int/round shadows (identity on concrete values)"]
EXPLANATION = "all feasible paths of the real graph routines; structure enumerated through solver booleans, weights symbolic"
LIMITS = {"samples_per_job": 1, "validate_per_job": 1}
REQUIRED_LABELS = ["topo-permutation", "topo-edges-forward", "cycle-reported", "lp-is-path", "lp-maximal", "cp-runtime-max",
                   "dependent-iff-reachable", "depth", "sources", "bfs-once", "bfs-parents-first", "dfs-reachable-once",
                   "jobgraph-completion-time"]


def worlds(tier):
    ws = []
    ws.append({"name": "digraph-n3", "n": 3, "pairs": "all", "order": list(range(3)), "split": 3})
    perms4 = [[0, 1, 2, 3], [3, 2, 1, 0], [2, 0, 3, 1]]
    for p in perms4:
        ws.append({"name": "dag-n4-order" + "".join(map(str, p)), "n": 4, "pairs": "fwd", "order": p, "split": 4, "weight": 4})
    ws.append({"name": "dag-n4-mixed-units", "n": 4, "pairs": "fwd", "order": [1, 3, 0, 2], "split": 4, "weight": 4,
               "units": ["MS", "US", "US", "MS"]})
    ws.append({"name": "dag-n3-queried-then-changed-then-queried-again", "n": 3, "pairs": "fwd", "order": [0, 1, 2], "split": 4, "weight": 6, "mutate": True})
    if tier != "quick":
        ws.append({"name": "dag-n4-queried-then-changed-then-queried-again", "n": 4, "pairs": "fwd", "order": [2, 0, 3, 1], "split": 6, "weight": 30, "mutate": True})
    if tier == "quick":
        ws.append({"name": "dag-n5-le6", "n": 5, "pairs": "fwd", "order": [4, 0, 3, 1, 2], "maxe": 6, "split": 6, "weight": 20,
                   "light": True})
    else:
        ws.append({"name": "digraph-n4", "n": 4, "pairs": "all", "order": [0, 1, 2, 3], "split": 8, "weight": 50})
        for p in ([0, 1, 2, 3, 4], [4, 0, 3, 1, 2]):
            ws.append({"name": "dag-n5-order" + "".join(map(str, p)), "n": 5, "pairs": "fwd", "order": p, "split": 7, "weight": 40})
        ws.append({"name": "dag-n6-le7", "n": 6, "pairs": "fwd", "order": [5, 0, 4, 1, 3, 2], "maxe": 7, "split": 8, "weight": 60,
                   "light": True})
    return ws


UNIT = {"US": (EventTime.Unit.US, 1), "MS": (EventTime.Unit.MS, 1000), "S": (EventTime.Unit.S, 1000000)}


def mk_task(name, graph, w, unit="US"):
    prof = WorkProfile(name=name + "_p", execution_strategies=ExecutionStrategies([
        ExecutionStrategy(resources=Resources({Resource(name="CPU", _id="any"): 1}, _logger=stubs.NULL), batch_size=1,
                          runtime=EventTime(w, UNIT[unit][0]))]))
    job = Job(name=name, profile=prof)
    return Task(name=name, task_graph=graph, job=job, deadline=EventTime(10, US), timestamp=0, _logger=stubs.NULL), job


def run(env, w):
    n = w["n"]
    order = w["order"]
    if w["pairs"] == "all":
        pairs = [(i, j) for i in range(n) for j in range(n) if i != j]
    else:
        pairs = [(i, j) for i in range(n) for j in range(i + 1, n)]
    adj = {i: [] for i in range(n)}
    ne = 0
    for (i, j) in pairs:
        if env.bool(f"e{i}{j}"):
            adj[i].append(j)
            ne += 1
            if w.get("maxe") is not None and ne > w["maxe"]:
                env.assume(False)
    lo = 0 if w.get("zero") else 1
    units = w.get("units") or ["US"] * n
    raw = [env.int(f"w{i}", lo, 2 ** 30) for i in range(n)]
    wt = [raw[i] * UNIT[units[i]][1] for i in range(n)]  # weights in microseconds
    tasks, jobs = [], []
    for i in range(n):
        t, j = mk_task(f"N{i}", "G", raw[i], units[i])
        tasks.append(t)
        jobs.append(j)
    idx = {t: i for i, t in enumerate(tasks)}
    jidx = {j: i for i, j in enumerate(jobs)}
    g = TaskGraph(name="G", tasks={tasks[i]: [tasks[j] for j in adj[i]] for i in order}, job_graph=None)
    jg = JobGraph(name="J", jobs={jobs[i]: [jobs[j] for j in adj[i]] for i in order})

    # ---- reference facts on the concrete structure
    parents = {i: [p for p in range(n) if i in adj[p]] for i in range(n)}
    reach = {i: _reach(adj, i) for i in range(n)}
    cyclic = any(i in _reach_strict(adj, i) for i in range(n))

    # ---- topological sort / cycle detection
    try:
        topo = g.topological_sort()
        raised = False
    except RuntimeError:
        raised = True
    env.require("cycle-reported", raised == cyclic)
    env.observe("cyclic", raised)
    if cyclic:
        for name, f in (("depth-cyclic", lambda: g.get_node_depth(tasks[0])), ("dependent-cyclic", lambda: g.are_dependent(tasks[0], tasks[1]))):
            try:
                f()
                r = False
            except RuntimeError:
                r = True
            env.require("cycle-reported", r)
        harness.finish_path(env)
        return
    ti = [idx[t] for t in topo]
    env.require("topo-permutation", sorted(ti) == list(range(n)))
    pos = {v: k for k, v in enumerate(ti)}
    env.require("topo-edges-forward", all(pos[i] < pos[j] for i in range(n) for j in adj[i]))
    env.observe("topo", ti)

    # ---- sources / sinks
    src = [i for i in order if not parents[i]]
    env.require("sources", [idx[t] for t in g.get_sources()] == src)
    env.require("sources", sorted(idx[t] for t in g.get_source_tasks()) == sorted(src))
    snk = sorted(i for i in range(n) if not adj[i])
    env.require("sinks", sorted(idx[t] for t in g.get_sink_tasks()) == snk)
    for i in range(n):
        env.require("sources", g.is_source(tasks[i]) == (not parents[i]))

    # ---- longest path (symbolic weights) and critical path runtime
    allpaths = _paths(adj, src)
    P = g.get_longest_path(weights=lambda t: wt[idx[t]])
    cpu = cp_us = None
    pi = [idx[t] for t in P]
    positive = not w.get("zero")
    if positive:
        env.require("lp-is-path", len(pi) >= 1 and pi[0] in src and not adj[pi[-1]] and all(b in adj[a] for a, b in zip(pi, pi[1:])))
    else:
        env.require("lp-is-path", len(pi) >= 1 and not adj[pi[-1]] and all(b in adj[a] for a, b in zip(pi, pi[1:])))
    WP = sum(wt[i] for i in pi)
    for q in allpaths:
        env.require("lp-maximal", WP >= sum(wt[i] for i in q))
    env.observe("lp", pi)
    cp = g.critical_path_runtime
    env.require("cp-runtime-max", sand(*[cp.time >= sum(wt[i] for i in q) for q in allpaths]))
    env.require("cp-runtime-max", sany([cp.time == sum(wt[i] for i in q) for q in allpaths]))
    env.require("cp-runtime-max", cp.unit == US)
    env.observe("cp", cp.time)
    ZERO = EventTime.zero()
    # JobGraph: completion time == critical path runtime == max path weight (all probabilities 1)
    ct = jg.completion_time
    ct_us = (ct - ZERO).time  # the sum keeps the finest unit met on the path: normalise through the time algebra (C16)
    env.require("jobgraph-completion-time", sand(*[ct_us >= sum(wt[i] for i in q) for q in allpaths]))
    env.require("jobgraph-completion-time", sany([ct_us == sum(wt[i] for i in q) for q in allpaths]))
    env.require("jobgraph-completion-time", jg.critical_path_runtime == ct)
    # unweighted longest path: maximal number of nodes
    P0 = g.get_longest_path()
    p0 = [idx[t] for t in P0]
    env.require("lp-unweighted", p0[0] in src and not adj[p0[-1]] and all(b in adj[a] for a, b in zip(p0, p0[1:]))
                and len(p0) == max(len(q) for q in allpaths))

    if w.get("light"):
        # larger graphs: traversal/dependency clauses only (weights already covered above)
        pass
    # ---- dependency, depth
    for a in range(n):
        for b in range(n):
            if a != b:
                env.require("dependent-iff-reachable", g.are_dependent(tasks[a], tasks[b]) == (b in reach[a] or a in reach[b]))
    dmax, dmin = {}, {}
    for i in ti:
        dmax[i] = 1 + max((dmax[p] for p in parents[i]), default=0)
        dmin[i] = 1 + min((dmin[p] for p in parents[i]), default=0)
    for i in range(n):
        env.require("depth", g.get_node_depth(tasks[i]) == dmax[i])
        env.require("depth", g.get_node_depth(tasks[i], func=min) == dmin[i])

    # ---- traversals
    bf = [idx[t] for t in g.breadth_first()]
    env.require("bfs-once", sorted(bf) == list(range(n)))
    bpos = {v: k for k, v in enumerate(bf)}
    env.require("bfs-parents-first", len(bpos) == n and all(bpos[p] < bpos[i] for i in range(n) for p in parents[i]))
    env.require("bfs-once", [idx[t] for t in iter(g)] == bf and len(g) == n)
    for s in range(n):
        df = [idx[t] for t in g.depth_first(tasks[s])]
        env.require("dfs-reachable-once", sorted(df) == sorted(reach[s]), info=f"start={s} adj={adj} got={df}")
        env.require("dfs-starts-at-node", df[:1] == [s])
    dfa = [idx[t] for t in g.depth_first()]
    env.require("dfs-all-once", sorted(dfa) == list(range(n)), info=f"adj={adj} got={dfa}")
    env.observe("bfs", bf)
    if w.get("mutate"):
        # the answers must follow the graph when it changes *after* it has been queried (memoised results, lazily filled tables)
        nodes = list(range(n))
        adj2 = {i: list(v) for i, v in adj.items()}
        node_of = dict(enumerate(tasks))
        k = env.choose(3, "mutation")
        if k in (0, 1):
            extra, _ = mk_task("Nx", "G", 1)
            node_of[n] = extra
            nodes.append(n)
            adj2[n] = []
            if k == 0:
                g.add_node(extra)  # a stand-alone node
            else:
                par = env.choose(n, "attach_to")
                g.add_child(tasks[par], extra)
                adj2[par].append(n)
        else:
            srcs_now = [i for i in range(n) if not parents[i]]
            victim = srcs_now[env.choose(len(srcs_now), "victim")]
            g.remove(tasks[victim])  # what TaskGraph.clean() does with finished sources
            nodes.remove(victim)
            del adj2[victim]
        idx2 = {t: i for i, t in node_of.items()}
        par2 = {i: [p for p in nodes if i in adj2[p]] for i in nodes}
        tag = f"after mutation {k}: nodes={nodes} adj={adj2}"
        topo2 = [idx2[t] for t in g.topological_sort()]
        env.require("requery:topological-sort", sorted(topo2) == sorted(nodes), info=tag + f" got={topo2}")
        pos2 = {v: q for q, v in enumerate(topo2)}
        env.require("requery:topological-sort", all(i in pos2 and j in pos2 and pos2[i] < pos2[j] for i in nodes for j in adj2[i]), info=tag + f" got={topo2}")
        env.require("requery:sources", sorted(idx2[t] for t in g.get_sources()) == sorted(i for i in nodes if not par2[i]), info=tag)
        d2 = {}
        for i in topo2:
            if i in par2:
                d2[i] = 1 + max((d2.get(p, 0) for p in par2[i]), default=0)
        for i in nodes:
            env.require("requery:depth", g.get_node_depth(node_of[i]) == d2.get(i), info=tag + f" node {i}")
        bf2 = [idx2[t] for t in g.breadth_first()]
        env.require("requery:traversal", sorted(bf2) == sorted(nodes), info=tag + f" got={bf2}")
        dfa2 = [idx2[t] for t in g.depth_first()]
        env.require("requery:traversal", sorted(dfa2) == sorted(nodes), info=tag + f" got={dfa2}")
    harness.finish_path(env)


def _reach(adj, s):
    seen, st = {s}, [s]
    while st:
        x = st.pop()
        for y in adj[x]:
            if y not in seen:
                seen.add(y)
                st.append(y)
    return seen


def _reach_strict(adj, s):
    seen, st = set(), [s]
    while st:
        x = st.pop()
        for y in adj[x]:
            if y not in seen:
                seen.add(y)
                st.append(y)
    return seen


def _paths(adj, src):
    out = []

    def rec(p):
        last = p[-1]
        if not adj[last]:
            out.append(list(p))
            return
        for y in adj[last]:
            rec(p + [y])

    for s in src:
        rec([s])
    return out


def signature(world, v, failures):
    if v["label"] in ("dfs-reachable-once", "dfs-all-once"):
        return "depth_first-yields-node-twice"
    return v["label"]


if __name__ == "__main__":
    import checks.c17 as _m

    sys.exit(harness.main(_m))
