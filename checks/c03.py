"""C03 -- simulated execution takes exactly the chosen strategy's runtime; clock monotone;
events in time order; start at the chosen time whenever possible."""
import sys

from vlib import harness, simworld
from vlib import worlds as w
from vlib.simcheck import RT3, SIM_ASSUMPTIONS, SIM_OUTSIDE, small

ID = "C03"
ORACLES = ["C03"]
ANCHORS = [("simulator.py", 467, 512), ("simulator.py", 1675, 1716), ("workers/workers.py", 319, 378), ("workload/tasks.py", 297, 352),
           ("simulator.py", 27, 53), ("simulator.py", 110, 119), ("workload/tasks.py", 284, 295)]
LIMITS = {"samples_per_job": 1, "validate_per_job": 1}
CRASH_IS_VIOLATION = False
ASSUMPTIONS = SIM_ASSUMPTIONS + ["runtime variance: only variance 0 is explored end-to-end; the [s+r, s+r(1+v/100)] clause is decided for EventTime.fuzz in isolation (variance worlds) with the relative-error float model"]
OUTSIDE = SIM_OUTSIDE
BOUNDS = "2-3 tasks; all release/runtime/deadline symbolic; scheduler frequency and delay symbolic; plan-ahead placements with the same-microsecond finish/placement coincidence under both task-name orders; re-planning with a different strategy"
EXPLANATION = "real Simulator.simulate() on all feasible paths; monitor asserts (z3) completion == start + runtime(chosen strategy), removal time == completion, clock non-decreasing, handled event time == clock, start >= chosen time and == chosen time unless a predecessor is unfinished or no worker of the chosen pool fits (own ledger)"
REQUIRED_LABELS = ["C03:clock-monotone", "C03:event-at-clock", "C03:events-in-time-order", "C03:completion-is-start-plus-runtime",
                   "C03:resources-released-at-completion", "C03:start-not-before-chosen-time", "C03:starts-at-chosen-time-when-possible"]


def named(a, b, **k):
    return [w.G("G0", [a], [], **k), w.G("G1", [b], [], **k)]


def worlds(tier):
    hv = {"max_delta": 2}
    ws = [
        w.W("indep2-1cpu-EDF", w.indep(2), w.C1, "EDF", split=6, weight=40),
        w.W("indep2-1cpu-FIFO-freq", w.indep(2, deadline=10 ** 6), w.C1, "FIFO", split=7, freq="sym", weight=60),
        w.W("indep2-1cpu-LSF-delay", w.indep(2, deadline=10 ** 6), w.C1, "LSF", split=7, delay="sym", weight=60),
        w.W("indep2-2cpu-EDF-periodic-scheduler-tasks-run-side-by-side", w.indep(2, release=0), w.C2, "EDF", split=7, freq=["sym", 4, 9], weight=60, tasks=small(("T0", "T1"))),
        w.W("second-graph-released-at-a-time-written-in-milliseconds-EDF", [w.G("G0", ["T0"], [], release=0, deadline=10 ** 6), dict(w.G("G1", ["T1"], [], release=["sym", 0, 2], deadline=10 ** 6), release_unit="MS")],
            w.C1, "EDF", split=5, weight=10, tasks={"T0": {"strategies": [{"rt": ["sym", 1, 400]}]}, "T1": {"strategies": [{"rt": ["sym", 1, 9]}]}}),
        w.W("chain2-1cpu-EDF-run_at_worker_free", w.chain(2), w.C1, "EDF", split=5, run_at_worker_free=True),
        w.W("planahead-names-AZ-1cpu-havoc", w.fixed_times(named("Alpha", "Zulu")), w.C1, "HAVOC", split=6, havoc=dict(hv, max_unplaced=0), tasks=small(("Alpha", "Zulu"))),
        w.W("planahead-names-ZA-1cpu-havoc", w.fixed_times(named("Zulu", "Alpha")), w.C1, "HAVOC", split=6, havoc=dict(hv, max_unplaced=0), tasks=small(("Zulu", "Alpha"))),
        w.W("replan-other-strategy-2cpu-havoc", w.fixed_times(w.indep(1)), w.C2, "HAVOC", split=6, havoc=dict(hv, retract=True, max_unplaced=1),
            tasks={"T0": {"strategies": [{"rt": RT3, "res": {"CPU": 2}}, {"rt": ["sym", 1, 5], "res": {"CPU": 1}}]}}),
        w.W("replan-2tasks-2strategies-havoc", w.fixed_times(w.indep(2)), w.C2, "HAVOC", split=8, havoc=dict(hv, retract=True, max_unplaced=0, max_future=1),
            tasks=small(("T0", "T1"), nstrat=2), weight=60),
        w.W("chain2-havoc-release_taskgraphs", w.fixed_times(w.chain(2)), w.C1, "HAVOC", split=6, havoc=dict(hv, release_taskgraphs=True), tasks=small(("T0", "T1"))),
        w.W("chain2-havoc-child-planned-while-parent-runs-then-replanned", w.fixed_times(w.chain(2)), w.C2, "HAVOC", split=8, freq=1,
            havoc=dict(hv, release_taskgraphs=True, retract=True, max_unplaced=0, max_replans=1), tasks=small(("T0", "T1")), weight=80),
        w.W("indep2-hetero-symdemand-EDF", w.indep(2, release=0), w.HETERO, "EDF", split=6, retry_loops=True,
            tasks={t: {"strategies": [{"rt": RT3, "res": {"CPU": ["sym", 0, 3]}}]} for t in ("T0", "T1")}, weight=10),
    ]
    if tier == "thorough":
        ws += [
            w.W("indep2-1cpu-EDF-freq+delay", w.indep(2), w.C1, "EDF", split=8, freq="sym", delay="sym", weight=300),
            w.W("indep3-1cpu-FIFO", w.indep(3, deadline=10 ** 6), w.C1, "FIFO", split=9, weight=600),
            w.W("join-2cpu-EDF", w.join(), w.C2, "EDF", split=6, weight=20),
            w.W("indep2-2cpu-havoc-sched-runtime", w.fixed_times(w.indep(2)), w.C2, "HAVOC", split=7, havoc=dict(hv), sched_runtime=["sym", 0, 3], tasks=small(("T0", "T1")), weight=60),
            w.W("planahead-3tasks-1cpu-havoc", w.fixed_times(named("B", "A") + [w.G("G2", ["C"], [], release=0, deadline=10 ** 6)]), w.C1, "HAVOC", split=9,
                havoc=dict(hv, max_unplaced=0), tasks=small(("A", "B", "C")), weight=400),
        ]
    return ws


def run(env, world):
    simworld.run(env, world, ORACLES)


if __name__ == "__main__":
    import checks.c03 as _m

    sys.exit(harness.main(_m))
