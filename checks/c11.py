"""C11 -- DAG-aware planners (ILP, TetriSched-Gurobi, Z3) order children after parents:
asserted over EVERY feasible solution of the model the real scheduler builds."""
import itertools
import sys
import time

from z3 import z3

from vlib import mipcheck, mipinst, mip2smt

ID = "C11"
BOUNDS = ("instances: chains, forks, joins, skip-diamonds, diamonds with <=4 tasks offered wholly (release_taskgraphs) or as a suffix whose first task is RUNNING / SCHEDULED / COMPLETED; "
          "1-2 workers (capacity 1-2), 1-2 strategies per task, runtimes 2-5, deadlines <=14, time discretisation 1-2; all numbers concrete; the model's solution space is covered symbolically")
OUTSIDE = "instance numerics are concrete (the solvers take floats); batching mode; >4 tasks; soft constraints of the Z3 policy are ignored (every model of the hard part is a candidate optimum)"
ASSUMPTIONS = ["gurobipy.Model is subclassed to capture the model at optimize() time; translation covers linear, bilinear, indicator and AND constraints (anything else aborts)",
               "read-back relation (which variable means task-on-worker-at-time-with-strategy) is taken from the scheduler's own variable tables and validated on every instance by fixing the real model's variables to a z3 solution and calling the real get_placements()",
               "every counterexample is re-validated the same way and on the returned Placements with plain Python before it is reported"]
EXPLANATION = "for every (child, predecessor) pair: model AND placed(child) AND NOT(placed(pred) AND start(child) >= start(pred)+runtime(pred, chosen)) is unsat; running predecessors: start(child) >= now + remaining"
REQUIRED_LABELS = ["C11:child-after-parent", "C11:child-after-running-parent", "C11:returned-plan-respects-precedence"]

SHAPES = {
    "chain2": (["A", "B"], [("A", "B")]),
    "chain3": (["A", "B", "C"], [("A", "B"), ("B", "C")]),
    "fork": (["A", "B", "C"], [("A", "B"), ("A", "C")]),
    "join": (["A", "B", "C"], [("A", "C"), ("B", "C")]),
    "skipdiamond": (["A", "B", "C"], [("A", "B"), ("A", "C"), ("C", "B")]),
    "diamond": (["A", "B", "C", "D"], [("A", "B"), ("A", "C"), ("B", "D"), ("C", "D")]),
    "chain4": (["A", "B", "C", "D"], [("A", "B"), ("B", "C"), ("C", "D")]),
}


def instances(tier):
    out = []
    shapes = ["chain2", "chain3", "fork", "join", "skipdiamond"] + (["diamond", "chain4"] if tier == "thorough" else [])
    worker_sets = [[1], [2], [1, 1], [2, 1]] if tier == "thorough" else [[1], [2, 1]]
    strat_sets = {"one": lambda i: [[3 + i % 2, 1]], "two": lambda i: [[2, 2], [4 + i % 2, 1]]}
    for shape in shapes:
        names, edges = SHAPES[shape]
        srcs = [n for n in names if not any(b == n for a, b in edges)]
        for ws in worker_sets:
            for sk, sf in strat_sets.items():
                if sk == "two" and max(ws) < 2:
                    continue
                for prefix in ("whole", "running", "scheduled", "completed"):
                    tasks = {}
                    for i, n in enumerate(names):
                        tasks[n] = {"strategies": sf(i), "deadline": 14}
                    now = 0
                    if prefix != "whole":
                        first = srcs[0]
                        now = 2
                        st = {"running": "RUNNING", "scheduled": "SCHEDULED", "completed": "COMPLETED"}[prefix]
                        tasks[first].update(state=st, worker=0, strategy=len(tasks[first]["strategies"]) - 1, at=0 if st != "SCHEDULED" else 4)
                        if st == "COMPLETED":
                            now = 6
                        for o in srcs[1:]:
                            tasks[o]["state"] = "RELEASED"
                    inst = {"now": now, "workers": ws, "graphs": [{"name": "G", "tasks": names, "edges": [list(e) for e in edges]}], "tasks": tasks}
                    for kind, opts in planners(tier, prefix):
                        out.append({"name": f"{kind}-{opts.get('goal', '')}-{shape}-w{''.join(map(str, ws))}-{sk}-{prefix}-d{opts.get('time_discretization', '')}", "kind": kind,
                                    "opts": opts, "inst": inst})
    # a source task that fits on no worker at all (its children do): nothing below it may be placed
    for shape in ["chain2", "fork", "join"] + (["chain3", "skipdiamond"] if tier == "thorough" else []):
        names, edges = SHAPES[shape]
        srcs = [n for n in names if not any(b == n for a, b in edges)]
        for ws in ([[1], [2, 1]] if tier == "quick" else [[1], [2], [2, 1]]):
            tasks = {n: {"strategies": [[3 + i % 2, 1]], "deadline": 14} for i, n in enumerate(names)}
            tasks[srcs[0]]["strategies"] = [[3, max(ws) + 1]]
            inst = {"now": 0, "workers": ws, "graphs": [{"name": "G", "tasks": names, "edges": [list(e) for e in edges]}], "tasks": tasks}
            for kind, opts in planners(tier, "whole"):
                out.append({"name": f"{kind}-{opts.get('goal', '')}-{shape}-w{''.join(map(str, ws))}-source-fits-nowhere-d{opts.get('time_discretization', '')}", "kind": kind, "opts": opts, "inst": inst})
    # the parent's runtime is written in milliseconds (2 ms), everything else in microseconds
    for kind, opts in (("Z3", {"release_taskgraphs": True, "enforce_deadlines": True}), ("ILP", {"goal": "max_goodput", "release_taskgraphs": True, "enforce_deadlines": True})):
        tasks = {"A": {"strategies": [[2000, 1]], "deadline": 9000, "runtime_in_ms": True}, "B": {"strategies": [[3, 1]], "deadline": 9000}}
        inst = {"now": 0, "workers": [2], "graphs": [{"name": "G", "tasks": ["A", "B"], "edges": [["A", "B"]]}], "tasks": tasks}
        out.append({"name": f"{kind}-chain2-w2-parent-runtime-in-milliseconds-d", "kind": kind, "opts": opts, "inst": inst})
    return out


def planners(tier, prefix):
    ps = [("ILP", {"goal": "max_goodput", "release_taskgraphs": True, "enforce_deadlines": True}),
          ("TSG", {"release_taskgraphs": True, "enforce_deadlines": True, "time_discretization": 1}),
          ("Z3", {"release_taskgraphs": True, "enforce_deadlines": True})]
    if tier == "thorough":
        ps += [("ILP", {"goal": "max_slack", "release_taskgraphs": True, "enforce_deadlines": False}),
               ("ILP", {"goal": "max_goodput", "lookahead": 20, "enforce_deadlines": True}),
               ("TSG", {"release_taskgraphs": True, "enforce_deadlines": False, "time_discretization": 2}),
               ("TSG", {"lookahead": 20, "enforce_deadlines": True, "time_discretization": 1, "retract_schedules": False}),
               ("Z3", {"lookahead": 20, "enforce_deadlines": False})]
    return ps


def check_instance(spec):
    I = mipinst.build(spec["inst"])
    kind = spec["kind"]
    res = {"queries": 0, "unsat": 0, "sat": 0, "unknown": 0, "solver_s": 0.0, "validated": 0, "models": 0, "skipped": 0, "checked": {}, "violations": [], "errors": []}
    try:
        R = mipinst.run_z3(I, spec["opts"]) if kind == "Z3" else mipinst.run_gurobi(I, kind, spec["opts"])
    except mip2smt.Untranslatable:
        raise
    except Exception as e:  # the policy itself raised: that is C10's business ("returns normally")
        res["crashed"] = 1
        res["crash"] = f"{type(e).__name__}: {e}"[:200]
        return res
    if R.model is None:
        res["skipped"] = 1
        return res
    res["models"] = 1
    s = R.zm.solver()

    def ask(extra):
        t0 = time.time()
        s.push()
        s.add(extra)
        r = s.check()
        m = s.model() if r == z3.sat else None
        s.pop()
        res["solver_s"] += time.time() - t0
        res["queries"] += 1
        res[str(r)] = res.get(str(r), 0) + 1
        return str(r), m

    def note(label):
        res["checked"][label] = res["checked"].get(label, 0) + 1

    P = I.params
    now = I.now
    # ---- read-back validation on one arbitrary solution
    if kind != "Z3":
        r, m = ask(z3.BoolVal(True))
        if r == "sat":
            vals = mip2smt.model_values(R.zm, m)
            pred = mipinst.predicted_placements(R, vals)
            real, st = mipinst.real_placements(R, vals)
            res["validated"] += 1
            if real is None:
                res["errors"].append(f"real solver rejects a z3 solution of the translated model (status {st})")
            elif real != pred:
                res["errors"].append(f"read-back relation disagrees with get_placements(): predicted {pred}, real {real}")
            res["sample"] = {"model_size": R.zm.stats, "one_solution": {k: v for k, v in pred.items()}}
        else:
            res["sample"] = {"model_size": R.zm.stats, "note": f"translated model is {r}"}
    else:
        res["sample"] = {"model_size": R.zm.stats}
    # ---- precedence over all solutions
    for c, rd in R.read.items():
        if rd["prev"]:
            continue
        for p in P[c]["parents"]:
            pst = I.tasks[p].state.name
            if kind == "Z3":
                placed_c, start_c = rd["placed"], rd["start"]
            else:
                placed_c, start_c = mipinst.placed(R, c), rd["start"]
            if p in R.read and not R.read[p]["prev"]:
                if kind == "Z3":
                    placed_p, start_p = R.read[p]["placed"], R.read[p]["start"]
                    rt_p = min(x[0] for x in P[p]["strategies"])  # no strategy is reported: weakest reading
                    ok = z3.And(placed_p, start_c >= start_p + rt_p)
                else:
                    ok = z3.And(mipinst.placed(R, p), start_c >= R.read[p]["start"] + mipinst.runtime_chosen(R, p))
                label = "C11:child-after-parent"
            elif pst == "RUNNING" or (pst == "SCHEDULED" and p not in R.read) or (p in R.read and R.read[p]["prev"]):
                t = I.tasks[p]
                fin = (now + t.remaining_time.time) if pst == "RUNNING" else (t.expected_start_time.time + t.remaining_time.time)
                ok = start_c >= fin
                label = "C11:child-after-running-parent"
            elif pst == "COMPLETED":
                continue
            else:
                ok = z3.BoolVal(False)  # predecessor neither decided nor placed before: the child must stay unplaced
                label = "C11:child-needs-placed-parent"
            note(label)
            r, m = ask(z3.And(placed_c, z3.Not(ok)))
            if r == "sat":
                detail = {"child": c, "parent": p, "parent_state": pst}
                if kind == "Z3":
                    detail.update(child_start=m.eval(start_c, model_completion=True).as_long())
                    confirmed = True  # the hard part of the z3 model admits it; soft constraints only rank solutions
                else:
                    vals = mip2smt.model_values(R.zm, m)
                    real, st = mipinst.real_placements(R, vals)
                    res["validated"] += 1
                    confirmed = real is not None and real.get(c) is not None
                    if confirmed:
                        detail.update(child=str((c, real.get(c))), parent_placement=str(real.get(p)))
                        # concrete re-check on the real placements
                        cs = real[c][1]
                        if p in real and real[p] is not None:
                            confirmed = cs < real[p][1] + P[p]["strategies"][real[p][2]][0]
                        elif p in real and real[p] is None:
                            confirmed = True
                        else:
                            t = I.tasks[p]
                            fin = (now + t.remaining_time.time) if pst == "RUNNING" else (t.expected_start_time.time + t.remaining_time.time if pst == "SCHEDULED" else None)
                            confirmed = fin is None or cs < fin
                    else:
                        res["errors"].append(f"counterexample for {c}<-{p} not accepted by the real solver (status {st})")
                if confirmed:
                    res["violations"].append({"label": label, "detail": detail})
    # ---- the plan actually returned
    ret, cancels = mipinst.returned_placements(R)
    note("C11:returned-plan-respects-precedence")
    for c, pls in ret.items():
        for pl in pls:
            if pl is None:
                continue
            for p in P[c]["parents"]:
                pst = I.tasks[p].state.name
                pp = [x for x in ret.get(p, []) if x is not None]
                if pp:
                    rts = [x[0] for x in P[p]["strategies"]]
                    rt = rts[pp[0][2]] if pp[0][2] is not None else min(rts)
                    if pl[1] < pp[0][1] + rt:
                        res["violations"].append({"label": "C11:returned-plan-respects-precedence", "detail": {"child": (c, pl), "parent": (p, pp[0])}})
                elif pst == "RUNNING":
                    if pl[1] < now + I.tasks[p].remaining_time.time:
                        res["violations"].append({"label": "C11:returned-plan-respects-precedence", "detail": {"child": (c, pl), "running_parent": p}})
                elif pst in ("RELEASED", "VIRTUAL") and p in ret:
                    res["violations"].append({"label": "C11:returned-plan-respects-precedence", "detail": {"child": (c, pl), "unplaced_parent": p}})
    if not R.side_effect_free:
        res["errors"].append("schedule() changed the live cluster / task state")
    return res


def signature(spec, v):
    d = v.get("detail") or {}
    if spec["kind"] == "Z3" and (v["label"] in ("C11:child-after-running-parent", "C11:child-needs-placed-parent") or "running_parent" in d or "unplaced_parent" in d):
        return "z3-policy-has-no-constraint-for-predecessors-that-are-not-offered"
    return f"{spec['kind']}:{v['label']}"


if __name__ == "__main__":
    import checks.c11 as _m

    sys.exit(mipcheck.main(_m))
