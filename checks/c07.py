"""C07 -- conditional branches: exactly one branch runs, the others are cancelled."""
import sys

from vlib import harness, simworld
from vlib import worlds as w
from vlib.simcheck import RT3, SIM_ASSUMPTIONS, SIM_OUTSIDE, small

ID = "C07"
ORACLES = ["C07"]
ANCHORS = [("workload/tasks.py", 895, 941), ("workload/tasks.py", 531, 540), ("workload/tasks.py", 958, 964), ("workload/jobs.py", 839, 861)]
LIMITS = {"samples_per_job": 1, "validate_per_job": 1}
CRASH_IS_VIOLATION = False
ASSUMPTIONS = SIM_ASSUMPTIONS + ["the weighted draw random.choices(children, weights) is replaced by a solver choice among the children with non-zero weight (the documented contract of random.choices); "
                                  "submission-time resolution goes through the real JobGraph._generate_task_graph with its FakeRandomNumberGenerator"]
OUTSIDE = SIM_OUTSIDE + "; probabilities are enumerated ((0.5,0.5),(1,0),(0,1),(0.3,0.7),(0.25,0.25,0.5)), not symbolic"
BOUNDS = "2- and 3-way conditionals, unequal branch lengths, work after the join, two conditionals in series, nested conditionals; all draws; EDF/FIFO/LSF and the plan-ahead policy"
EXPLANATION = ("real Simulator.simulate() on all feasible paths, every branch draw explored; at the end, for every completed conditional: exactly one child was released, it had non-zero weight, "
               "every task on an untaken branch up to (excluding) the join is CANCELLED and never started, the join and its successors completed exactly once")
REQUIRED_LABELS = ["C07:exactly-one-child-released", "C07:released-child-has-nonzero-probability", "C07:untaken-branch-cancelled", "C07:untaken-branch-never-started",
                   "C07:join-and-successors-complete-once", "C07:join-starts-after-the-taken-branch", "C07:branch-is-the-one-resolved-at-submission"]
CJ = ("C", "a", "b", "J")


def worlds(tier):
    hv = {"max_delta": 2}
    ws = [
        w.W("cond2-half-half-EDF", w.fixed_times(w.cond2()), w.C1, "EDF", split=6, weight=30, work_conserving=True),
        w.W("cond2-p(1,0)-FIFO", w.fixed_times(w.cond2((1.0, 0.0))), w.C1, "FIFO", split=6, weight=20, work_conserving=True, tasks=small(CJ)),
        w.W("cond2-p(0,1)-LSF", w.fixed_times(w.cond2((0.0, 1.0))), w.C1, "LSF", split=6, weight=20, work_conserving=True, tasks=small(CJ)),
        w.W("cond2-p(0.3,0.7)-EDF-2cpu", w.fixed_times(w.cond2((0.3, 0.7))), w.C2, "EDF", split=6, weight=20, work_conserving=True, tasks=small(CJ)),
        w.W("cond3-EDF", w.fixed_times(w.cond3()), w.C1, "EDF", split=7, weight=40, work_conserving=True, tasks=small(("C", "a", "b", "c", "J"))),
        w.W("cond-uneven-EDF", w.fixed_times(w.cond_uneven()), w.C2, "EDF", split=7, weight=40, work_conserving=True, tasks=small(("C", "a", "a2", "b", "J"))),
        w.W("cond-with-a-fan-out-inside-one-branch-EDF", w.fixed_times(w.cond_fanbranch()), w.C2, "EDF", split=7, weight=60, work_conserving=True,
            tasks={t: {"strategies": [{"rt": 2}]} for t in ("C", "a", "x", "x1", "x2", "x3", "xf", "J")}),
        w.W("cond-tail-FIFO", w.fixed_times(w.cond_tail()), w.C1, "FIFO", split=7, weight=40, work_conserving=True, tasks=small(("C", "a", "b", "J", "Z"))),
        w.W("cond-series-EDF", w.fixed_times(w.cond_series()), w.C1, "EDF", split=8, weight=60, work_conserving=True,
            tasks={t: {"strategies": [{"rt": 2}]} for t in ("C", "a", "b", "J", "D", "c", "d", "K")}),
        w.W("cond-nested-EDF", w.fixed_times(w.cond_nested()), w.C2, "EDF", split=8, weight=60, work_conserving=True,
            tasks={t: {"strategies": [{"rt": 2}]} for t in ("C", "a", "D", "c", "d", "K", "J")}),
        w.W("cond2-resolved-at-submission-EDF", [dict(w.cond2()[0], release=0, via_jobgraph=True)], w.C1, "EDF", split=6, weight=20, work_conserving=True, tasks=small(CJ)),
        w.W("cond3-resolved-at-submission-FIFO", [dict(w.cond3()[0], release=0, via_jobgraph=True)], w.C2, "FIFO", split=6, weight=20, work_conserving=True,
            tasks=small(("C", "a", "b", "c", "J"))),
        w.W("cond-series-resolved-at-submission-EDF", [dict(w.cond_series()[0], release=0, via_jobgraph=True)], w.C1, "EDF", split=6, weight=20, work_conserving=True,
            tasks={t: {"strategies": [{"rt": 2}]} for t in ("C", "a", "b", "J", "D", "c", "d", "K")}),
        w.W("cond-series-resolved-at-submission-second-stage-listed-first", [dict(w.cond_series()[0], release=0, via_jobgraph=True, tasks=["D", "c", "d", "K", "C", "a", "b", "J"])],
            w.C1, "EDF", split=6, weight=20, work_conserving=True, tasks={t: {"strategies": [{"rt": 2}]} for t in ("C", "a", "b", "J", "D", "c", "d", "K")}),
        w.W("cond2-random-branch-prediction-EDF", w.fixed_times(w.cond2()), w.C1, "EDF", split=8, weight=40, work_conserving=True, branch_policy="RANDOM",
            tasks={t: {"strategies": [{"rt": 2}]} for t in CJ}),
        w.W("cond2-havoc-release_taskgraphs", w.fixed_times(w.cond2()), w.C2, "HAVOC", split=8,
            havoc=dict(hv, release_taskgraphs=True, max_unplaced=0, first_pool_only=True), tasks=small(CJ), weight=60),
    ]
    if tier == "thorough":
        ws += [
            w.W("cond2-half-half-EDF-symbolic-times", w.cond2(), w.C1, "EDF", split=8, weight=300, work_conserving=True),
            w.W("cond-tail-havoc-lookahead", w.fixed_times(w.cond_tail()), w.C2, "HAVOC", split=9,
                havoc=dict(hv, lookahead="sym", max_unplaced=0, first_pool_only=True, future=False), tasks=small(("C", "a", "b", "J", "Z")), weight=300),
            w.W("cond-series-LSF-symbolic-runtimes", w.fixed_times(w.cond_series()), w.C2, "LSF", split=9, weight=400, work_conserving=True,
                tasks=small(("C", "a", "b", "J", "D", "c", "d", "K"))),
            w.W("cond-uneven-havoc-release_taskgraphs-join-planned-ahead", w.fixed_times(w.cond_uneven()), w.C2, "HAVOC", split=10,
                havoc=dict(hv, release_taskgraphs=True, max_unplaced=0, first_pool_only=True), tasks=small(("C", "a", "a2", "b", "J")), weight=800),
            w.W("cond-with-a-fan-out-inside-one-branch-symbolic-runtimes", w.fixed_times(w.cond_fanbranch()), w.C2, "EDF", split=9, weight=400, work_conserving=True,
                tasks=small(("C", "a", "x", "x1", "x2", "x3", "xf", "J"))),
            w.W("cond-nested-EDF-symbolic-runtimes", w.fixed_times(w.cond_nested()), w.C1, "FIFO", split=9, weight=400, work_conserving=True,
                tasks=small(("C", "a", "D", "c", "d", "K", "J"))),
            w.W("cond-nested-resolved-at-submission", [dict(w.cond_nested()[0], release=0, via_jobgraph=True)], w.C2, "EDF", split=8, weight=100, work_conserving=True,
                tasks={t: {"strategies": [{"rt": RT3}]} for t in ("C", "a", "D", "c", "d", "K", "J")}),
        ]
    return ws


def run(env, world):
    simworld.run(env, world, ORACLES)


if __name__ == "__main__":
    import checks.c07 as _m

    sys.exit(harness.main(_m))
