"""C14 -- optimisation-based planners do not leave achievable goodput on the table.

ILP (goodput goal): max objective of the captured model == optimum of an independent reference
semantics written in SMT (two z3 optimisation runs per instance), and the returned plan attains it.
TetriSched (Gurobi, CPLEX): over every OPTIMAL solution of the captured model no offered, unplaced task
can be added at any allowed (slot, worker, strategy) without breaking capacity / release / deadline.
"""
import sys
import time

from z3 import z3

from vlib import opt, mipcheck, mipinst, mip2smt

ID = "C14"
BOUNDS = ("<=4 offered tasks (independent single-task graphs, or one whole-graph chain with release_taskgraphs), <=2 workers (capacity 1-2), <=2 strategies, horizon <=12 slots, "
          "time discretisation 1-3, optional running task that started at `now`; numbers concrete, the models' solution spaces symbolic")
OUTSIDE = ("instances beyond the enumeration bound; running tasks that are part-way through (the formulations charge a running task its full runtime); MIP-gap effects (objective <= 8, gap 0.1 cannot hide a task or graph); "
           "DAGs other than chains in the maximality clause")
ASSUMPTIONS = ["ILP time conventions are part of the reference: integer starts >= now+1, a task occupies [start, start+runtime] inclusive, a child starts >= parent end + 1",
               "reference R1 = exact per-instant capacity; R2 = R1 with the ILP's row structure (own demand + demand of every task overlapping it <= capacity). opt(model) must equal opt(R2); "
               "instances where opt(R2) < opt(R1) are the known conservativeness of the ILP capacity row (known finding), anything else is reported",
               "TetriSched: half-open occupancy [t, t+runtime) on the slot grid; maximality is asserted over all solutions whose objective equals the optimum (computed by z3.Optimize)"]
EXPLANATION = "differential check of the captured model against an independent SMT reference (optimisation + all-optimal-solutions queries); returned plans re-checked concretely"
REQUIRED_LABELS = ["C14:ilp-optimum-equals-reference", "C14:ilp-returned-plan-attains-optimum", "C14:tetrisched-optimal-solutions-are-maximal", "C14:tetrisched-returned-plan-is-maximal"]


def instances(tier):
    out = []
    now = 1
    strat_sets = [lambda i: [[3, 1]], lambda i: [[2 + i % 2, 1]], lambda i: [[2, 2], [4, 1]] if i % 2 == 0 else [[3, 1]]]
    worker_sets = [[1], [2], [1, 1], [2, 1]]
    deadline_sets = {"tight": lambda i: now + 4 + 3 * i, "backtoback": lambda i: 9, "loose": lambda i: 12}
    for ws in worker_sets:
        for si, sf in enumerate(strat_sets):
            if si == 2 and max(ws) < 2:
                continue
            for dk, df in deadline_sets.items():
                for nt in ((2, 3) if tier == "quick" else (2, 3, 4)):
                    for running in (False, True):
                        if running and tier == "quick" and (nt == 3 or dk == "loose"):
                            continue
                        tasks, graphs = {}, []
                        if running:
                            tasks["R"] = {"strategies": [[4, 1]], "deadline": 20, "state": "RUNNING", "worker": 0, "strategy": 0, "at": now}
                            graphs.append({"name": "GR", "tasks": ["R"], "edges": []})
                        for i in range(nt):
                            tn = f"T{i}"
                            tasks[tn] = {"strategies": sf(i), "deadline": df(i), "state": "RELEASED", "release": 0}
                            graphs.append({"name": f"G{i}", "tasks": [tn], "edges": []})
                        inst = {"now": now, "workers": ws, "graphs": graphs, "tasks": tasks}
                        tag = f"w{''.join(map(str, ws))}-s{si}-{dk}-n{nt}{'-run' if running else ''}"
                        out.append({"name": f"ILP-indep-{tag}", "kind": "ILP", "opts": {"goal": "max_goodput", "enforce_deadlines": True}, "inst": inst})
                        for td in ((1, 2) if tier == "quick" else (1, 2, 3)):
                            if tier == "quick" and td == 2 and (nt == 3 or running):
                                continue
                            out.append({"name": f"TSG-indep-d{td}-{tag}", "kind": "TSG", "opts": {"enforce_deadlines": True, "time_discretization": td}, "inst": inst})
                            out.append({"name": f"TSC-indep-d{td}-{tag}", "kind": "TSC", "opts": {"enforce_deadlines": True, "time_discretization": td}, "inst": inst})
        # whole-graph chains
        for n in (2, 3):
            for dk, dl in (("tight", now + 4 * n), ("loose", 12)):
                names = [f"C{i}" for i in range(n)]
                tasks = {t: {"strategies": [[3, 1]], "deadline": dl} for t in names}
                tasks[names[0]].update(state="RELEASED", release=0)
                inst = {"now": now, "workers": ws, "graphs": [{"name": "G", "tasks": names, "edges": [[names[i], names[i + 1]] for i in range(n - 1)]}], "tasks": tasks}
                tag = f"w{''.join(map(str, ws))}-chain{n}-{dk}"
                out.append({"name": f"ILP-{tag}", "kind": "ILP", "opts": {"goal": "max_goodput", "enforce_deadlines": True, "release_taskgraphs": True}, "inst": inst})
                out.append({"name": f"TSG-d1-{tag}", "kind": "TSG", "opts": {"enforce_deadlines": True, "time_discretization": 1, "release_taskgraphs": True}, "inst": inst})
    # a task planned for later (still SCHEDULED) and a newly released one: the second invocation must still place the newcomer
    for ws in ([[2]] if tier == "quick" else [[2], [2, 1], [3]]):
        tasks = {"S": {"strategies": [[3, 1]], "deadline": 20, "state": "SCHEDULED", "worker": 0, "strategy": 0, "at": 8}, "N": {"strategies": [[3, 1]], "deadline": 12, "state": "RELEASED", "release": 0}}
        inst = {"now": 2, "workers": ws, "graphs": [{"name": "GS", "tasks": ["S"], "edges": []}, {"name": "GN", "tasks": ["N"], "edges": []}], "tasks": tasks}
        out.append({"name": f"TSG-d1-w{''.join(map(str, ws))}-one-scheduled-for-later-one-new", "kind": "TSG", "opts": {"enforce_deadlines": True, "time_discretization": 1}, "inst": inst})
    # a chain whose parent is RUNNING and has already made progress: the child fits right after the parent's *remaining* time
    for ws in ([[2], [2, 1]] if tier == "quick" else [[2], [2, 1], [1, 1], [3]]):
        for dl in ((12,) if tier == "quick" else (11, 12, 14)):
            tasks = {"C0": {"strategies": [[6, 1]], "deadline": 20, "state": "RUNNING", "worker": 0, "strategy": 0, "at": 0}, "C1": {"strategies": [[3, 1]], "deadline": dl}}
            inst = {"now": 4, "workers": ws, "graphs": [{"name": "G", "tasks": ["C0", "C1"], "edges": [["C0", "C1"]]}], "tasks": tasks}
            tag = f"w{''.join(map(str, ws))}-chain2-parent-running-with-progress-dl{dl}"
            out.append({"name": f"ILP-{tag}", "kind": "ILP", "opts": {"goal": "max_goodput", "enforce_deadlines": True, "release_taskgraphs": True}, "inst": inst})
            out.append({"name": f"TSG-d1-{tag}", "kind": "TSG", "opts": {"enforce_deadlines": True, "time_discretization": 1, "release_taskgraphs": True}, "inst": inst})
    return out


# ------------------------------------------------------------------------------------------ ILP reference

def ilp_reference(I, offered, exact, in_model=None, running_as_fresh=False, row_for_every_worker=False):
    """Independent SMT semantics of 'a feasible plan' under the ILP's time conventions.
    Returns (optimizer-ready constraints, goodput term, per-task vars)."""
    now, P = I.now, I.params
    cons, V = [], {}
    nW = len(I.workers)
    for tn in offered:
        placed = z3.Bool(f"r_placed_{tn}")
        wk = z3.Int(f"r_worker_{tn}")
        st = z3.Int(f"r_strat_{tn}")
        start = z3.Int(f"r_start_{tn}")
        V[tn] = (placed, wk, st, start)
        ns = len(P[tn]["strategies"])
        cons += [wk >= 0, wk < nW, st >= 0, st < ns]
        rel = P[tn]["release"]
        cons.append(start >= max(now + 1, rel if rel is not None and rel >= 0 else 0))
        # the (worker, strategy) pair must fit the empty worker
        fits = []
        for w_, (pi, wobj, caps) in enumerate(I.workers):
            for s_, (rt, dem) in enumerate(P[tn]["strategies"]):
                if all(caps.get(rn, 0) >= q for rn, q in dem.items()):
                    fits.append(z3.And(wk == w_, st == s_))
        cons.append(z3.Implies(placed, z3.Or(fits) if fits else z3.BoolVal(False)))
        rt_t = z3.Sum([z3.If(st == s_, rt, 0) for s_, (rt, dem) in enumerate(P[tn]["strategies"])])
        V[tn] += (rt_t,)
        cons.append(z3.Implies(placed, start + rt_t <= P[tn]["deadline"]))
    # what is left of a running task: its remaining time (running_as_fresh: the ILP's convention, the full runtime counted from now)
    def left(tn):
        t = I.tasks[tn]
        si = mipinst._sidx(I, tn, t.current_placement.execution_strategy)
        return P[tn]["strategies"][si][0] if running_as_fresh else t.remaining_time.time

    # precedence (whole graph offered; a running parent ends at now + what is left of it)
    for tn in offered:
        for p in P[tn]["parents"]:
            if p in V:
                cons.append(z3.Implies(V[tn][0], z3.And(V[p][0], V[tn][3] >= V[p][3] + V[p][4] + 1)))
            elif I.tasks[p].state.name == "RUNNING":
                cons.append(z3.Implies(V[tn][0], V[tn][3] >= now + left(p) + 1))
    # occupancy by running tasks: [now, now + what is left] inclusive
    fixed = []
    for tn, t in I.tasks.items():
        if t.state.name == "RUNNING":
            wpos = [wk.id for (_, wk, _) in I.workers].index(t.current_placement.worker_id)
            si = mipinst._sidx(I, tn, t.current_placement.execution_strategy)
            fixed.append((wpos, now, left(tn), P[tn]["strategies"][si][1]))
    names = list(V)
    resources = sorted({rn for (_, _, caps) in I.workers for rn in caps})

    def dem_of(tn, rn):
        return z3.Sum([z3.If(V[tn][2] == s_, dem.get(rn, 0), 0) for s_, (rt, dem) in enumerate(P[tn]["strategies"])])

    def overlap(s1, r1, s2, r2):  # closed intervals
        return z3.And(s1 <= s2 + r2, s2 <= s1 + r1)

    for w_, (pi, wobj, caps) in enumerate(I.workers):
        for rn in resources:
            cap = caps.get(rn, 0)
            for i in names:
                pi_, wi, sti, si_, ri = V[i]
                if exact:
                    # usage at the instant start_i
                    use = dem_of(i, rn)
                    for j in names:
                        if j != i:
                            pj, wj, stj, sj, rj = V[j]
                            use = use + z3.If(z3.And(pj, wj == w_, sj <= si_, si_ <= sj + rj), dem_of(j, rn), 0)
                    for (fw, fs, fr, fd) in fixed:
                        if fw == w_:
                            use = use + z3.If(z3.And(fs <= si_, si_ <= fs + fr), fd.get(rn, 0), 0)
                else:
                    # the ILP writes this row for every (task, worker) pair, whether or not the task itself is on that worker
                    use = z3.If(wi == w_, dem_of(i, rn), 0) if row_for_every_worker else dem_of(i, rn)
                    for j in names:
                        if j != i:
                            pj, wj, stj, sj, rj = V[j]
                            use = use + z3.If(z3.And(pj, wj == w_, overlap(si_, ri, sj, rj)), dem_of(j, rn), 0)
                    for (fw, fs, fr, fd) in fixed:
                        if fw == w_:
                            use = use + z3.If(overlap(si_, ri, fs, fr), fd.get(rn, 0), 0)
                cons.append(z3.Implies(pi_ if (row_for_every_worker and not exact) else z3.And(pi_, wi == w_), use <= cap))
            if not exact:
                # the row of a running task: its own demand plus everything overlapping it
                for (fw, fs, fr, fd) in fixed:
                    if fw == w_:
                        use = fd.get(rn, 0)
                        for j in names:
                            pj, wj, stj, sj, rj = V[j]
                            use = use + z3.If(z3.And(pj, wj == w_, overlap(fs, fr, sj, rj)), dem_of(j, rn), 0)
                        cons.append(use <= cap)
    # goodput: graphs whose reward tasks (offered tasks without an offered child) are all placed
    good = []
    in_model = list(in_model or names)  # offered tasks + tasks that are already running (they count as placed)
    for gname, tg in I.task_graphs.items():
        mine = [tn for tn in in_model if I.graph_of[tn] == gname]
        if not mine:
            continue
        reward = [tn for tn in mine if not any(c in in_model for c in P[tn]["children"])]
        good.append(z3.If(z3.And([V[tn][0] if tn in V else z3.BoolVal(True) for tn in reward]), 1, 0))
    return cons, z3.Sum(good) if good else z3.IntVal(0), V


def maximize(cons, term, timeout_ms=120000):
    """optimum by plain-solver strengthening (vlib/opt.py): z3.Optimize is not trusted"""
    st, v, _ = opt.maximize(cons, term, timeout_ms)
    if st != "sat":
        return st, None
    return "sat", (z3.IntVal(v) if isinstance(v, int) else z3.RealVal(str(v)))


def check_instance(spec):
    I = mipinst.build(spec["inst"])
    kind = spec["kind"]
    res = {"queries": 0, "unsat": 0, "sat": 0, "unknown": 0, "solver_s": 0.0, "validated": 0, "models": 0, "skipped": 0, "checked": {}, "violations": [], "errors": []}

    def note(label):
        res["checked"][label] = res["checked"].get(label, 0) + 1

    try:
        R = mipinst.run(I, kind, spec["opts"])
    except mip2smt.Untranslatable:
        raise
    except Exception as e:
        res["crashed"] = 1
        res["crash"] = f"{type(e).__name__}: {e}"[:200]
        return res
    if R.model is None:
        res["skipped"] = 1
        if kind in ("TSG", "TSC"):
            # the policy answered without solving: whatever it left unplaced must still have no room next to what is running / already scheduled
            note("C14:tetrisched-returned-plan-is-maximal")
            P, now = I.params, I.now
            ret, cancels = mipinst.returned_placements(R)
            plan = []
            for tn, t in I.tasks.items():
                if t.state.name in ("RUNNING", "SCHEDULED") and not any(pl is not None for pl in ret.get(tn, [])):
                    wpos = [wk.id for (_, wk, _) in I.workers].index(t.current_placement.worker_id) if t.current_placement.worker_id is not None else 0
                    si = mipinst._sidx(I, tn, t.current_placement.execution_strategy)
                    st0 = now if t.state.name == "RUNNING" else t.current_placement.placement_time.time
                    plan.append((tn, wpos, st0, P[tn]["strategies"][si][0], P[tn]["strategies"][si][1]))
            for tn, pls in ret.items():
                for pl in pls:
                    if pl is not None:
                        plan.append((tn, pl[0], pl[1], P[tn]["strategies"][pl[2]][0], P[tn]["strategies"][pl[2]][1]))
            for u, t in I.tasks.items():
                if t.state.name != "RELEASED" or u in cancels or any(pl is not None for pl in ret.get(u, [])) or P[u]["parents"]:
                    continue
                found = None
                for w_, (pi, wobj, caps) in enumerate(I.workers):
                    for si, (rt, dem) in enumerate(P[u]["strategies"]):
                        for t0 in range(now, P[u]["deadline"] - rt + 1):
                            if all(sum(d.get(rn, 0) for (_, w2, s2, r2, d) in plan if w2 == w_ and s2 <= tau < s2 + r2) + q <= caps.get(rn, 0) for rn, q in dem.items() for tau in range(t0, t0 + rt)):
                                found = {"worker": w_, "slot": t0, "strategy": si}
                                break
                        if found:
                            break
                    if found:
                        break
                if found:
                    res["violations"].append({"label": "C14:tetrisched-returned-plan-is-maximal", "detail": {"task": u, "addable_at": found, "plan": [(a, b, c, d) for (a, b, c, d, e) in plan], "note": "the policy returned without building a model"}})
        return res
    res["models"] = 1
    P, now = I.params, I.now
    offered = [tn for tn, rd in R.read.items() if not rd["prev"]]
    ret, cancels = mipinst.returned_placements(R)
    t0 = time.time()
    if kind == "ILP":
        # (1) optimum of the captured model
        st, opt_model = maximize(R.zm.cons, R.zm.objective)
        res["queries"] += 1
        if st != "sat":
            res["unknown"] += 1
            res["solver_s"] += time.time() - t0
            return res
        opt_model = opt_model.as_long() if z3.is_int_value(opt_model) else float(opt_model.as_fraction())
        in_model = list(R.read)
        c2, g2, _ = ilp_reference(I, offered, exact=False, in_model=in_model)
        st2, opt2 = maximize(c2, g2)
        c1, g1, _ = ilp_reference(I, offered, exact=True, in_model=in_model)
        st1, opt1 = maximize(c1, g1)
        res["queries"] += 2
        if st1 != "sat" or st2 != "sat":
            res["unknown"] += 1
            res["solver_s"] += time.time() - t0
            return res
        opt1, opt2 = opt1.as_long(), opt2.as_long()
        res["sat"] += 3
        note("C14:ilp-optimum-equals-reference")
        res["sample"] = {"model_size": R.zm.stats, "optimum_model": opt_model, "optimum_reference_rowwise": opt2, "optimum_reference_exact": opt1}
        if opt_model != opt2:
            # is the whole difference the ILP's convention of counting a running task with its full runtime from now?
            c3, g3, _ = ilp_reference(I, offered, exact=False, in_model=in_model, running_as_fresh=True)
            st3, opt3 = maximize(c3, g3)
            res["queries"] += 1
            c4, g4, _ = ilp_reference(I, offered, exact=False, in_model=in_model, row_for_every_worker=True)
            st4, opt4 = maximize(c4, g4)
            res["queries"] += 1
            if st4 == "sat" and opt4.as_long() == opt_model and opt_model < opt2 and len(I.workers) > 1:
                res["violations"].append({"label": "C14:ilp-capacity-row-ignores-which-worker-the-task-is-on", "detail": {"model": opt_model, "reference": opt2, "reference_with_rows_for_every_worker": opt_model}})
            elif st3 == "sat" and opt3.as_long() == opt_model and opt_model < opt2 and any(t.state.name == "RUNNING" and t.remaining_time.time < P[tn]["strategies"][mipinst._sidx(I, tn, t.current_placement.execution_strategy)][0] for tn, t in I.tasks.items()):
                res["violations"].append({"label": "C14:ilp-counts-a-running-task-with-its-full-runtime", "detail": {"model": opt_model, "reference": opt2, "reference_with_full_runtime": opt_model}})
            else:
                res["violations"].append({"label": "C14:ilp-optimum-equals-reference", "detail": {"model": opt_model, "reference": opt2, "exact_reference": opt1}})
        elif opt2 < opt1:
            res["violations"].append({"label": "C14:ilp-capacity-row-is-conservative", "detail": {"model": opt_model, "exact_reference": opt1}})
        # (2) the returned plan attains the model optimum
        note("C14:ilp-returned-plan-attains-optimum")
        got = 0
        for gname, tg in I.task_graphs.items():
            mine = [tn for tn in in_model if I.graph_of[tn] == gname]
            if not mine:
                continue
            reward = [tn for tn in mine if not any(c in in_model for c in P[tn]["children"])]
            if all(tn not in offered or any(pl is not None for pl in ret.get(tn, [])) for tn in reward):
                got += 1
        if got != opt_model:
            res["violations"].append({"label": "C14:ilp-returned-plan-attains-optimum", "detail": {"returned_goodput": got, "model_optimum": opt_model, "returned": {k: v for k, v in ret.items()}}})
        res["solver_s"] += time.time() - t0
        return res
    # ---- TetriSched: maximality of optimal solutions
    st, opt = maximize(R.zm.cons, R.zm.objective)
    res["queries"] += 1
    if st != "sat":
        res["unknown"] += 1
        return res
    res["sat"] += 1
    s = R.zm.solver()
    s.add(R.zm.objective >= opt)
    td = spec["opts"].get("time_discretization", 1)
    cells_by_task = {tn: rd["cells"] for tn, rd in R.read.items()}
    slots = sorted({c[1] for tn, cs in cells_by_task.items() for c in cs if c[1] is not None})
    # running occupancy (full runtime from now, half-open)
    fixed = []
    for tn, t in I.tasks.items():
        if t.state.name == "RUNNING":
            wpos = [wk.id for (_, wk, _) in I.workers].index(t.current_placement.worker_id)
            si = mipinst._sidx(I, tn, t.current_placement.execution_strategy)
            fixed.append((wpos, now, P[tn]["strategies"][si][0], P[tn]["strategies"][si][1]))

    def usage(w_, rn, tau):
        u = 0
        for tn, cs in cells_by_task.items():
            if R.read[tn]["prev"]:
                continue
            for (wpos, t, si, term) in cs:
                if wpos != w_ or t is None:
                    continue
                rt, dem = P[tn]["strategies"][si]
                if t <= tau < t + rt and dem.get(rn, 0):
                    u = u + term * dem.get(rn, 0)
        for (fw, fs, fr, fd) in fixed:
            if fw == w_ and fs <= tau < fs + fr:
                u = u + fd.get(rn, 0)
        return u

    def ask(extra):
        t1 = time.time()
        s.push()
        s.add(extra)
        r = s.check()
        m = s.model() if r == z3.sat else None
        s.pop()
        res["solver_s"] += time.time() - t1
        res["queries"] += 1
        res[str(r)] = res.get(str(r), 0) + 1
        return str(r), m

    def earliest(u):
        """earliest start the not-offered parents of u allow (a running parent ends at now + its remaining time; the
        child may start one microsecond later, as in the ILP); None: a parent is neither done nor running -> not judged"""
        e = now
        for p in P[u]["parents"]:
            if p in offered:
                continue
            stp = I.tasks[p].state.name
            if stp == "COMPLETED":
                continue
            if stp != "RUNNING":
                return None
            e = max(e, now + I.tasks[p].remaining_time.time + 1)
        return e

    note("C14:tetrisched-optimal-solutions-are-maximal")
    for u in offered:
        if P[u]["parents"] and any(p in offered for p in P[u]["parents"]):
            continue  # chains: dependants are covered through the model's own precedence rows (C11)
        rel = P[u]["release"]
        est = earliest(u)
        if est is None:
            continue
        adds = []
        for w_, (pi, wobj, caps) in enumerate(I.workers):
            for si, (rt, dem) in enumerate(P[u]["strategies"]):
                if not all(caps.get(rn, 0) >= q for rn, q in dem.items()):
                    continue
                for t in slots:
                    if t < now or t < est or (rel is not None and rel >= 0 and t < rel):
                        continue
                    if spec["opts"].get("enforce_deadlines") and t + rt > P[u]["deadline"]:
                        continue
                    room = [usage(w_, rn, tau) + q <= caps.get(rn, 0) for rn, q in dem.items() for tau in range(t, t + rt)]
                    adds.append(z3.And(room))
        if not adds:
            continue
        r, m = ask(z3.And(z3.Not(mipinst.placed(R, u)), z3.Or(adds)))
        if r == "sat":
            vals = mip2smt.model_values(R.zm, m)
            real, st_ = mipinst.real(R, vals)
            res["validated"] += 1
            res["violations"].append({"label": "C14:tetrisched-optimal-solutions-are-maximal",
                                      "detail": {"task": u, "optimal_plan_leaves_it_out": {k: v for k, v in (real or {}).items()}, "objective": str(opt)}})
    # returned plan, concretely
    note("C14:tetrisched-returned-plan-is-maximal")
    plan = [(tn, pl[0], pl[1], P[tn]["strategies"][pl[2]][0], P[tn]["strategies"][pl[2]][1]) for tn, pls in ret.items() for pl in pls if pl is not None]
    plan += [("running", fw, fs, fr, fd) for (fw, fs, fr, fd) in fixed]
    for u in offered:
        if any(pl is not None for pl in ret.get(u, [])) or u in cancels:
            continue
        if P[u]["parents"] and any(p in offered for p in P[u]["parents"]):
            continue
        rel = P[u]["release"]
        est = earliest(u)
        if est is None:
            continue
        for w_, (pi, wobj, caps) in enumerate(I.workers):
            for si, (rt, dem) in enumerate(P[u]["strategies"]):
                if not all(caps.get(rn, 0) >= q for rn, q in dem.items()):
                    continue
                for t in slots:
                    if t < now or t < est or (rel is not None and rel >= 0 and t < rel):
                        continue
                    if spec["opts"].get("enforce_deadlines") and t + rt > P[u]["deadline"]:
                        continue
                    ok = True
                    for rn, q in dem.items():
                        for tau in range(t, t + rt):
                            use = sum(d.get(rn, 0) for (_, w2, s2, r2, d) in plan if w2 == w_ and s2 <= tau < s2 + r2)
                            if use + q > caps.get(rn, 0):
                                ok = False
                                break
                        if not ok:
                            break
                    if ok:
                        res["violations"].append({"label": "C14:tetrisched-returned-plan-is-maximal",
                                                  "detail": {"task": u, "addable_at": {"worker": w_, "slot": t, "strategy": si}, "plan": [(a, b, c, d) for (a, b, c, d, e) in plan]}})
                        break
                else:
                    continue
                break
            else:
                continue
            break
    res["sample"] = {"model_size": R.zm.stats, "optimum": str(opt), "slots": slots[:14]}
    return res


def signature(spec, v):
    if v["label"] == "C14:ilp-capacity-row-is-conservative":
        return "ilp-capacity-row-charges-every-overlapping-task-even-if-they-do-not-overlap-each-other"
    if v["label"] == "C14:ilp-capacity-row-ignores-which-worker-the-task-is-on":
        return "ilp-capacity-row-of-a-task-is-written-for-every-worker-even-those-it-is-not-placed-on"
    if v["label"] == "C14:ilp-counts-a-running-task-with-its-full-runtime":
        return "ilp-counts-a-running-task-with-its-full-runtime-from-now"
    return f"{spec['kind']}:{v['label']}"


if __name__ == "__main__":
    import checks.c14 as _m

    sys.exit(mipcheck.main(_m))
