"""C12 (planner part) -- no plan that misses a deadline: over every solution of the captured model
of ILP (task-by-task mode), TetriSched-Gurobi and TetriSched-CPLEX with enforce_deadlines."""
import sys
import time

from z3 import z3

from vlib import mipcheck, mipinst, mip2smt

ID = "C12"
BOUNDS = ("1-3 offered tasks (independent, or a child whose parent has completed / is running), 1-2 workers, 1-2 strategies, deadlines in {past, tight-1, tight, tight+1, loose} "
          "relative to now + runtime, time discretisation 1-2; numbers concrete, solution space symbolic")
OUTSIDE = "ILP with release_taskgraphs (enforcement is conditional there by design); batching; instance numerics concrete"
ASSUMPTIONS = ["see C11: model capture, translation and read-back validation against the real get_placements()"]
EXPLANATION = "for every task and every placement cell (worker, time, strategy): model AND cell AND time + runtime(strategy) > deadline is unsat; a hopeless task is unplaced in every solution and in the returned plan (cancelled by TetriSched-CPLEX)"
REQUIRED_LABELS = ["C12:no-solution-misses-a-deadline", "C12:hopeless-task-never-placed", "C12:returned-plan-meets-deadlines"]


def instances(tier):
    out = []
    now = 3
    for kind, opts in (("ILP", {"goal": "max_goodput", "enforce_deadlines": True}), ("ILP", {"goal": "max_slack", "enforce_deadlines": True}),
                       ("TSG", {"enforce_deadlines": True, "time_discretization": 1}), ("TSG", {"enforce_deadlines": True, "time_discretization": 2}),
                       ("TSC", {"enforce_deadlines": True, "time_discretization": 1}), ("TSC", {"enforce_deadlines": True, "time_discretization": 2})):
        for ws in ([1], [2, 1]):
            for strats in ([[4, 1]], [[3, 2], [6, 1]]):
                fast = min(s[0] for s in strats)
                for dk, dl in (("past", now - 1), ("tight-1", now + fast - 1), ("tight", now + fast), ("tight+1", now + fast + 1), ("loose", now + 12)):
                    # one task of interest + one filler that competes for the worker
                    tasks = {"T": {"strategies": strats, "deadline": dl, "state": "RELEASED", "release": 1},
                             "F": {"strategies": [[4, 1]], "deadline": now + 14, "state": "RELEASED", "release": 0}}
                    inst = {"now": now, "workers": ws, "graphs": [{"name": "G0", "tasks": ["T"], "edges": []}, {"name": "G1", "tasks": ["F"], "edges": []}], "tasks": tasks}
                    out.append({"name": f"{kind}-{opts.get('goal', '')}-d{opts.get('time_discretization', '')}-w{''.join(map(str, ws))}-s{len(strats)}-{dk}", "kind": kind, "opts": opts, "inst": inst})
                # a child offered alone after its parent completed (task-by-task mode), tight / too tight
                for dk, off in (("child-tight", 0), ("child-too-tight", -2), ("child-loose", 6)):
                    tasks = {"A": {"strategies": [[3, 1]], "deadline": 20, "state": "COMPLETED", "worker": 0, "strategy": 0, "at": 0},
                             "B": {"strategies": strats, "deadline": 4 + fast + 1 + off, "state": "RELEASED", "release": 3}}
                    inst = {"now": 4, "workers": ws, "graphs": [{"name": "G0", "tasks": ["A", "B"], "edges": [["A", "B"]]}], "tasks": tasks}
                    out.append({"name": f"{kind}-{opts.get('goal', '')}-d{opts.get('time_discretization', '')}-w{''.join(map(str, ws))}-s{len(strats)}-{dk}", "kind": kind, "opts": opts, "inst": inst})
        # a task planned earlier for a later slot (still SCHEDULED) that has to be re-placed by a planner that does not retract: its late cells stay forbidden
        if kind in ("TSG", "TSC") and opts.get("time_discretization") == 1:
            for dk, dl in (("tight", 9), ("loose", 16)):
                tasks = {"S": {"strategies": [[5, 1]], "deadline": dl, "state": "SCHEDULED", "worker": 0, "strategy": 0, "at": 4},
                         "N": {"strategies": [[3, 1]], "deadline": 8, "state": "RELEASED", "release": 1}}
                inst = {"now": 2, "workers": [1], "graphs": [{"name": "GS", "tasks": ["S"], "edges": []}, {"name": "GN", "tasks": ["N"], "edges": []}], "tasks": tasks}
                out.append({"name": f"{kind}--d1-w1-scheduled-task-replaced-without-retraction-{dk}", "kind": kind, "opts": dict(opts, retract_schedules=False), "inst": inst})
    if tier == "quick":
        out = [o for o in out if not (o["kind"] != "ILP" and "-d2-" in o["name"] and "-w21-" in o["name"])]
    return out


def check_instance(spec):
    I = mipinst.build(spec["inst"])
    kind = spec["kind"]
    res = {"queries": 0, "unsat": 0, "sat": 0, "unknown": 0, "solver_s": 0.0, "validated": 0, "models": 0, "skipped": 0, "checked": {}, "violations": [], "errors": []}
    try:
        R = mipinst.run(I, kind, spec["opts"])
    except mip2smt.Untranslatable:
        raise
    except Exception as e:
        res["crashed"] = 1
        res["crash"] = f"{type(e).__name__}: {e}"[:200]
        return res
    P, now = I.params, I.now

    def note(label):
        res["checked"][label] = res["checked"].get(label, 0) + 1

    hopeless = {tn for tn, p in P.items() if I.tasks[tn].state.name in ("RELEASED", "VIRTUAL") and p["deadline"] < now + min(s[0] for s in p["strategies"])}
    ret, cancels = mipinst.returned_placements(R)
    # ---- returned plan
    note("C12:returned-plan-meets-deadlines")
    for tn, pls in ret.items():
        for pl in pls:
            if pl is None:
                continue
            rt = P[tn]["strategies"][pl[2]][0]
            if pl[1] + rt > P[tn]["deadline"]:
                res["violations"].append({"label": "C12:returned-plan-meets-deadlines", "detail": {"task": tn, "placement": pl, "deadline": P[tn]["deadline"]}})
    for tn in hopeless:
        note("C12:hopeless-task-never-placed")
        placed = any(pl is not None for pl in ret.get(tn, []))
        if placed:
            res["violations"].append({"label": "C12:hopeless-task-never-placed", "detail": {"task": tn, "returned": ret.get(tn)}})
        if kind == "TSC" and tn not in cancels:
            res["violations"].append({"label": "C12:hopeless-task-cancelled-by-tetrisched-cplex", "detail": {"task": tn, "returned": ret.get(tn)}})
    if kind == "TSC":
        for tn in cancels:
            if tn not in hopeless:
                res["violations"].append({"label": "C12:feasible-task-not-cancelled", "detail": {"task": tn}})
    if R.model is None:
        res["skipped"] = 1
        return res
    res["models"] = 1
    s = R.zm.solver()

    def ask(extra):
        t0 = time.time()
        s.push()
        s.add(extra)
        r = s.check()
        m = s.model() if r == z3.sat else None
        s.pop()
        res["solver_s"] += time.time() - t0
        res["queries"] += 1
        res[str(r)] = res.get(str(r), 0) + 1
        return str(r), m

    r, m = ask(z3.BoolVal(True))
    if r == "sat":
        vals = mip2smt.model_values(R.zm, m)
        pred = mipinst.predicted_placements(R, vals)
        real, st = mipinst.real(R, vals)
        res["validated"] += 1
        if real is None:
            res["errors"].append(f"real solver rejects a z3 solution of the translated model (status {st})")
        elif real != pred:
            res["errors"].append(f"read-back relation disagrees with get_placements(): predicted {pred}, real {real}")
        res["sample"] = {"model_size": R.zm.stats, "one_solution": pred}
    for tn, rd in R.read.items():
        if rd["prev"]:
            continue
        dl = P[tn]["deadline"]
        late = []
        for (wpos, t, si, term) in rd["cells"]:
            rt = P[tn]["strategies"][si][0]
            if t is None:
                late.append(z3.And(term == 1, rd["start"] + rt > dl))
            elif t + rt > dl:
                late.append(term == 1)
        note("C12:no-solution-misses-a-deadline")
        if late:
            r, m = ask(z3.Or(late))
            if r == "sat":
                vals = mip2smt.model_values(R.zm, m)
                real, st = mipinst.real(R, vals)
                res["validated"] += 1
                if real is None or real.get(tn) is None:
                    res["errors"].append(f"late-placement counterexample for {tn} not reproduced by the real model (status {st}, {real})")
                else:
                    wpos, t, si = real[tn]
                    if t + P[tn]["strategies"][si][0] > dl:
                        res["violations"].append({"label": "C12:no-solution-misses-a-deadline", "detail": {"task": tn, "placement": real[tn], "deadline": dl}})
        if tn in hopeless:
            r, m = ask(mipinst.placed(R, tn))
            if r == "sat":
                res["violations"].append({"label": "C12:hopeless-task-never-placed", "detail": {"task": tn, "model": "a feasible solution places it"}})
    if not R.side_effect_free:
        res["errors"].append("schedule() changed the live cluster / task state")
    return res


def signature(spec, v):
    return f"{spec['kind']}:{v['label']}"


if __name__ == "__main__":
    import checks.c12_mip as _m

    sys.exit(mipcheck.main(_m))
