"""C12 -- deadline enforcement: admission (symbolic execution of EDF / FIFO / TetriSched-CPLEX admission)
plus every solution of the planners' models (ILP, TetriSched-Gurobi, TetriSched-CPLEX)."""
import sys

from vlib import combine

if __name__ == "__main__":
    import checks.c12_adm as adm
    import checks.c12_cw as cw
    import checks.c12_mip as mip

    sys.exit(combine.main("C12", [("sym", adm), ("sym", cw), ("mip", mip)]))
