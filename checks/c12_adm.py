"""C12 (admission part) -- with deadline enforcement a hopeless task is cancelled, never placed;
the boundary deadline == now + fastest runtime is admitted.  Real schedule() of EDF, FIFO and the
admission block of TetriSched-CPLEX on symbolic now / deadline / release / runtimes."""
import sys

from vlib import harness, pysym, stubs
from vlib.pysym import sand, sany, simplies, snot, sor

stubs.install()

import checks.c13 as c13  # noqa: E402  (state construction helpers)
from schedulers import EDFScheduler, FIFOScheduler  # noqa: E402
from utils import EventTime  # noqa: E402
from workers import Worker, WorkerPool, WorkerPools  # noqa: E402
from workload import JobGraph, Placement, Resource, Resources, TaskGraph, Workload  # noqa: E402

ID = "C12"
US = EventTime.Unit.US
NULL = stubs.NULL
ANCHORS = [("schedulers/edf_scheduler.py", "EDFScheduler.schedule"), ("schedulers/fifo_scheduler.py", "FIFOScheduler.schedule"),
           ("schedulers/tetrisched_cplex_scheduler.py", "TetriSchedCPLEXScheduler.schedule")]
LIMITS = {"samples_per_job": 1, "validate_per_job": 1}
BOUNDS = "1-2 offered tasks (released at or before now), 1-2 strategies, symbolic now / release / deadline / runtimes, one pool with symbolic capacity"
OUTSIDE = "TetriSched-CPLEX beyond its admission block (the model needs concrete numbers: covered by the model-capture part)"
ASSUMPTIONS = ["TetriSched-CPLEX: schedule() is stopped right after the admission block by replacing _initialize_optimizer with a stub that raises; a path that reaches the stub has admitted every remaining task"]
EXPLANATION = "all feasible paths of the real schedule(); z3 proves: deadline < now + fastest runtime <=> the task is answered CANCEL_TASK (and then never PLACE_TASK)"
REQUIRED_LABELS = ["C12:hopeless-task-cancelled", "C12:feasible-task-not-cancelled", "C12:cancelled-task-not-placed"]


class Admitted(Exception):
    pass


def worlds(tier):
    ws = []
    for pol in ("EDF", "FIFO", "TSC"):
        ws.append({"name": f"{pol}-1task-2strategies", "policy": pol, "n": 1, "nstrat": 2, "pools": 1, "occ": False, "units": ["US"], "split": 4})
        ws.append({"name": f"{pol}-2tasks-1strategy", "policy": pol, "n": 2, "nstrat": 1, "pools": 1, "occ": False, "units": ["US", "MS"], "split": 6, "weight": 10})
        if tier == "thorough":
            ws.append({"name": f"{pol}-3tasks-2strategies", "policy": pol, "n": 3, "nstrat": 2, "pools": 1, "occ": False, "units": ["US", "MS", "US"], "split": 8, "weight": 100,
                       "fixed_demand": True})
    return ws


def run(env, w):
    now = env.int("now", 0, 2 ** 20)
    n = w["n"]
    tasks, params = [], []
    for i in range(n):
        t, p = c13.mk_task(env, i, w, now)
        env.assume(p["rel"] <= now)
        tasks.append(t)
        params.append(p)
    tgs = {f"G{i}": TaskGraph(name=f"G{i}", tasks={tasks[i]: []}, job_graph=JobGraph(name=f"J{i}")) for i in range(n)}
    cap = env.int("cap0", 0, 8)
    pools = [WorkerPool(name="P0", workers=[Worker(name="W0", resources=Resources({Resource(name="CPU"): cap}, _logger=NULL), _logger=NULL)], _logger=NULL)]
    wps = WorkerPools(pools)
    for t, p in zip(tasks, params):
        t.release(EventTime(p["rel"], US))
    wl = Workload.from_task_graphs(tgs)
    pol = w["policy"]
    admitted_all = False
    if pol == "TSC":
        import schedulers.tetrisched_cplex_scheduler as mod

        sch = mod.TetriSchedCPLEXScheduler(runtime=EventTime.zero(), enforce_deadlines=True)

        def stop(current_time):
            raise Admitted()

        sch._initialize_optimizer = stop
        try:
            pls = list(sch.schedule(EventTime(now, US), wl, wps))
        except Admitted:
            pls = None  # some task survived admission; cancellations of the others are local to schedule()
    else:
        sch = {"EDF": EDFScheduler, "FIFO": FIFOScheduler}[pol](runtime=EventTime.zero(), enforce_deadlines=True)
        pls = list(sch.schedule(EventTime(now, US), wl, wps))
    hopeless = []
    for i in range(n):
        fast = params[i]["strats"][0][0]
        for (rt, *_) in params[i]["strats"][1:]:
            fast = pysym.site(rt < fast, rt, fast)
        hopeless.append(params[i]["dl_us"] < now + fast)
    if pls is None:
        # reached the optimiser: at least one task was admitted, i.e. not every task is hopeless
        env.require("C12:feasible-task-not-cancelled", snot(sand(*hopeless)))
        harness.finish_path(env)
        return
    for i, t in enumerate(tasks):
        mine = [p for p in pls if p.task is t]
        cancelled = any(p.placement_type == Placement.PlacementType.CANCEL_TASK for p in mine)
        placed = any(p.placement_type == Placement.PlacementType.PLACE_TASK and p.is_placed() for p in mine)
        if cancelled:
            env.require("C12:feasible-task-not-cancelled", hopeless[i], f"task {i}")
            env.require("C12:cancelled-task-not-placed", not placed, f"task {i}")
        else:
            env.require("C12:hopeless-task-cancelled", snot(hopeless[i]), f"task {i}")
        if placed and pol != "TSC":
            pl = [p for p in mine if p.is_placed()][0]
            env.require("C12:placed-task-can-meet-deadline-with-fastest", snot(hopeless[i]), f"task {i}")
    env.observe("decisions", sorted((p.task.name, str(p.placement_type), p.is_placed()) for p in pls))
    harness.finish_path(env)


if __name__ == "__main__":
    import checks.c12_adm as _m

    sys.exit(harness.main(_m))
