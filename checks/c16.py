"""C16 -- simulated time is an exact, totally ordered integer quantity; the event queue
pops in (time, type priority[, task name]) order, also after re-timing / removal."""
import itertools
import sys

from vlib import harness, pysym, stubs
from vlib.pysym import sand, sany, simplies, snot, sor

stubs.install()

import utils  # noqa: E402
from simulator import Event, EventQueue, EventType  # noqa: E402
from utils import EventTime  # noqa: E402
from workload import Job, Task  # noqa: E402

ID = "C16"
U = {"US": EventTime.Unit.US, "MS": EventTime.Unit.MS, "S": EventTime.Unit.S}
K = {"US": 1, "MS": 1000, "S": 1000000}
ANCHORS = [("utils.py", 84, 93), ("utils.py", 128, 157), ("simulator.py", 151, 224), ("simulator.py", 110, 119)]
BOUNDS = ("time laws: all unit triples over {us,ms,s}, symbolic integer values with |value*unit| < 2^53 us "
          "(negatives and -1 included); event queue: k<=3 (quick) / 4 (thorough) events, symbolic times, "
          "type chosen by the solver from {TASK_CANCEL,TASK_FINISHED,TASK_RELEASE,TASK_PLACEMENT,SCHEDULER_START}; plus single-type heaps of 6 (quick) / 7 (thorough) events with one removal or re-timing; "
          "scripts {add*, [pop], add*, [retime+reheapify], [remove], pop*}")
OUTSIDE = "values at or beyond 2^53 us; queues with more than 4 events; the two simulator call sites that re-time events (covered by C03's whole-run check)"
ASSUMPTIONS = [
    "float model: int*float with an integral float factor is exact when |operand| and |result| < 2^53 (IEEE-754 exact on representable integers); the obligation is discharged per path from the declared input ranges",
    "utils.type/int/round are shadowed by versions that are the identity on concrete values",
    "every reported counterexample is replayed with plain ints on the unmodified code",
]
EXPLANATION = "all feasible paths of the real EventTime / EventQueue methods over symbolic integers"
LIMITS = {"samples_per_job": 1, "validate_per_job": 2}
EXPECTED_EXC = ()


def worlds(tier):
    ws = []
    units = ["US", "MS", "S"]
    for ua, ub in itertools.product(units, units):
        ws.append({"name": f"laws2-{ua}-{ub}", "kind": "laws2", "u": [ua, ub]})
    trip = list(itertools.product(units, units, units))
    if tier == "quick":
        trip = [t for t in trip if len(set(t)) >= 2][::3] + [("US", "US", "US")]
    for t in trip:
        ws.append({"name": "laws3-" + "-".join(t), "kind": "laws3", "u": list(t)})
    for u in units:
        ws.append({"name": f"unary-{u}", "kind": "unary", "u": [u]})
    # (k, number of event types the solver may pick from)
    cfgs = [(2, 5), (3, 3)] if tier == "quick" else [(2, 5), (3, 5), (4, 3)]
    for k, nty in cfgs:
        scripts = queue_scripts(k, tier)
        if tier == "quick" and k == 3:
            scripts = scripts[:1] + scripts[1:7:2] + scripts[7:]
        for si, sc in enumerate(scripts):
            ws.append({"name": f"queue-k{k}-t{nty}-s{si}", "kind": "queue", "k": k, "script": sc, "nty": nty,
                       "weight": nty ** k, "split": 3 if k >= 3 else None})
    # deeper heaps (structure bugs of sift/remove need >= 6 entries): one event type, symbolic times only
    deep = [(6, [3]), (7, [1])] if tier == "quick" else [(6, [0, 1, 2, 3, 4, 5]), (7, [1, 3, 4, 5])]
    for k, js in deep:
        for j in js:
            alladd = [("A", i) for i in range(k)]
            ws.append({"name": f"queue-deep-k{k}-remove{j}", "kind": "queue", "k": k, "script": alladd + [("X", j)], "nty": 1,
                       "weight": 40 * k, "split": 6 if k < 7 else 11, "plain": True})
            if tier != "quick":
                ws.append({"name": f"queue-deep-k{k}-retime{j}", "kind": "queue", "k": k, "script": alladd + [("R", j)], "nty": 1,
                           "weight": 40 * k, "split": 6, "plain": True})
    # six insertions with symbolic times and nothing else: every relative order of the times, no repair by a later remove / re-time
    ws.append({"name": "queue-deep-k6-insertions-only", "kind": "queue", "k": 6, "script": [("A", i) for i in range(6)], "nty": 1, "weight": 300, "split": 9, "plain": True})
    return ws


def queue_scripts(k, tier):
    """Operation scripts: ('A',i) add event i, ('P',) pop, ('R',i) retime event i in place and
    reheapify, ('X',i) remove event i.  Trailing pops until empty are implicit."""
    out = []
    alladd = [("A", i) for i in range(k)]
    out.append(alladd)
    for j in range(k):
        out.append(alladd + [("R", j)])
        out.append(alladd + [("X", j)])
    out.append(alladd[: k - 1] + [("P",)] + alladd[k - 1:])
    out.append(alladd[: k - 1] + [("R", 0)] + alladd[k - 1:])
    if k >= 3:
        out.append(alladd + [("R", 0), ("X", 1)])
        out.append(alladd + [("X", 1), ("R", 0)])
        out.append(alladd[:1] + [("P",)] + alladd[1:] + [("R", k - 1)])
    if tier == "thorough" and k >= 3:
        out.append(alladd + [("R", 0), ("R", 1)])
        out.append(alladd[:2] + [("X", 0)] + alladd[2:] + [("R", 1)])
    return out


def iff(a, b):
    return sor(sand(a, b), sand(snot(a), snot(b)))


def mk(env, name, unit, bits=53):
    lim = (2 ** bits - 1) // K[unit]
    v = env.int(name, -lim, lim)
    return v, EventTime(v, U[unit])


def us(v, unit):
    return v * K[unit]


def run(env, w):
    kind = w["kind"]
    if kind == "laws2":
        run_laws2(env, w["u"])
    elif kind == "laws3":
        run_laws3(env, w["u"])
    elif kind == "unary":
        run_unary(env, w["u"][0])
    else:
        run_queue(env, w)
    check_float_obligations(env)
    harness.finish_path(env)


def check_float_obligations(env):
    if env.concrete:
        return
    eng = env.eng
    for x in getattr(eng, "fl_obligations", []):
        b = eng.abs_bound(x)
        if b is None or b >= 2 ** 53:
            if eng.find(sor(x >= 2 ** 53, x <= -(2 ** 53))) is not None:
                raise pysym.Inconclusive("float exactness obligation |x| < 2^53 not discharged")


def run_laws2(env, u):
    ua, ub = u
    a, A = mk(env, "a", ua)
    b, B = mk(env, "b", ub)
    xa, xb = us(a, ua), us(b, ub)
    env.require("eq", iff(A == B, xa == xb))
    env.require("ne", iff(A != B, xa != xb))
    env.require("lt", iff(A < B, xa < xb))
    env.require("le", iff(A <= B, xa <= xb))
    env.require("gt", iff(A > B, xa > xb))
    env.require("ge", iff(A >= B, xa >= xb))
    try:
        hA, hB = A.__hash__(), B.__hash__()
        opaque = False
    except pysym.Unsupported:
        opaque = True
    if not opaque:
        env.require("hash-eq", simplies(xa == xb, hA == hB))
        env.require("hash-val", hA == xa)
    else:
        # the hash is not an arithmetic function of the operands (e.g. built with builtin hash()): it cannot be carried
        # symbolically. Consistency with == is then decided on solver-chosen witnesses of A == B (zero and non-zero),
        # evaluated on concrete EventTime objects; a failing witness is pinned into the path so that the replay reproduces it.
        for extra in (a == 0, snot(a == 0)):
            m = env.eng.find(sand(xa == xb, extra))
            if m is None:
                continue
            va, vb = m.get("a", 0), m.get("b", 0)
            if hash(EventTime(va, U[ua])) != hash(EventTime(vb, U[ub])):
                env.assume(sand(a == va, b == vb))
                env.require("hash-eq", False, info=f"EventTime({va},{ua}) == EventTime({vb},{ub}) but their hashes differ")
                break
        else:
            env.checked["hash-eq"] = env.checked.get("hash-eq", 0) + 1
    S = A + B
    fin = ua if K[ua] <= K[ub] else ub
    env.require("add-unit", S.unit == U[fin])
    env.require("add-val", us(S.time, fin) == xa + xb)
    D = A - B
    env.require("sub-unit", D.unit == U[fin])
    env.require("sub-val", us(D.time, fin) == xa - xb)
    env.require("add-sub-roundtrip", (S - B) == A)
    env.require("sub-add-roundtrip", (D + B) == A)
    env.require("add-commutes", (A + B) == (B + A))
    # conversions
    try:
        C = A.to(U[ub])
        ok = True
    except ValueError:
        ok = False
    env.require("to-refuses-coarsening", ok == (K[ub] <= K[ua]))
    if ok:
        env.require("to-exact", us(C.time, ub) == xa)
        env.require("to-unit", C.unit == U[ub])
        env.require("to-type", utils.type(C.time) is int)
    env.observe("sum", S.time)
    env.observe("diff", D.time)
    env.observe("lt", A < B)


def run_laws3(env, u):
    ua, ub, uc = u
    # three-operand laws form sums of up to three values: keep every intermediate < 2^53
    a, A = mk(env, "a", ua, 51)
    b, B = mk(env, "b", ub, 51)
    c, C = mk(env, "c", uc, 51)
    xa, xb, xc = us(a, ua), us(b, ub), us(c, uc)
    # total order / transitivity through the implementation's own comparisons
    env.require("trichotomy", sor(A < B, A == B, A > B))
    env.require("lt-irreflexive-asym", snot(sand(A < B, B < A)))
    env.require("transitive", simplies(sand(A <= B, B <= C), A <= C))
    env.require("assoc", ((A + B) + C) == (A + (B + C)))
    env.require("assoc-val", us(((A + B) + C).time, min((ua, ub, uc), key=lambda q: K[q])) == xa + xb + xc)
    env.require("sub-distributes", ((A - B) - C) == (A - (B + C)))
    env.require("order-translation", iff(A < B, (A + C) < (B + C)))
    m = max([A, B, C])
    env.require("max-is-upper", sand(m >= A, m >= B, m >= C))
    s = sorted([A, B, C])
    env.require("sorted", sand(s[0] <= s[1], s[1] <= s[2]))
    env.observe("sorted", [t.time for t in s])


def run_unary(env, ua):
    a, A = mk(env, "a", ua)
    xa = us(a, ua)
    env.require("is-invalid", iff(A.is_invalid(), a == -1))
    import copy

    C = copy.copy(A)
    env.require("copy-equal", sand(C == A, C.unit == A.unit, C.time == a))
    env.require("copy-distinct", C is not A)
    k = env.int("k", -1000, 1000)
    M = A * k
    env.require("mul", sand(M.unit == A.unit, M.time == a * k))
    try:
        A * 1.5
        bad = False
    except RuntimeError:
        bad = True
    env.require("mul-rejects-float", bad)
    try:
        EventTime(1.5, U[ua])
        bad = False
    except ValueError:
        bad = True
    env.require("ctor-rejects-float", bad)
    env.require("zero", EventTime.zero() + A == A)
    env.require("self-eq", sand(A == A, snot(A < A), A <= A))
    env.require("neg-roundtrip", (EventTime.zero() - (EventTime.zero() - A)) == A)
    for un in ("US", "MS", "S"):
        if K[un] <= K[ua]:
            env.require("to-exact", us(A.to(U[un]).time, un) == xa)
    env.observe("us", A.to(U["US"]).time)


TYPES = [EventType.TASK_FINISHED, EventType.TASK_PLACEMENT, EventType.SCHEDULER_START, EventType.TASK_RELEASE,
         EventType.TASK_CANCEL]
_JOB = None


def _task(i):
    global _JOB
    if _JOB is None:
        _JOB = Job(name="J")
    return Task(name=f"T{i}", task_graph="G", job=_JOB, deadline=EventTime(100, U["US"]), _logger=stubs.NULL)


def key_le(e1, e2):
    """documented order: time, then type priority; returns formula e1 <= e2 (ignoring names)."""
    t1, t2 = e1.time, e2.time
    v1, v2 = e1.event_type.value, e2.event_type.value
    return sor(t1 < t2, sand(t1 == t2, v1 <= v2))


def name_ok(e1, e2):
    if e1.event_type == e2.event_type and e1.task is not None and e2.task is not None:
        return simplies(e1.time == e2.time, e1.task.unique_name <= e2.task.unique_name)
    return True


def run_queue(env, w):
    k, script = w["k"], w["script"]
    evs = []
    for i in range(k):
        unit = "MS" if (i == 1 and k >= 3 and not w.get("plain")) else "US"
        lim = 2 ** 40 // K[unit]
        t = env.int(f"t{i}", 0, lim)
        ty = EventType.SCHEDULER_START if w.get("plain") else TYPES[env.choose(w["nty"], f"ty{i}")]
        if ty in (EventType.SCHEDULER_START,):
            task = None
        else:
            # events 0 and 2 carry the same task name: that tie falls through to type order only
            task = _task(i % 2)
        if ty == EventType.TASK_PLACEMENT:
            from workload import Placement

            ev = Event(event_type=ty, time=EventTime(t, U[unit]), task=task,
                       placement=Placement.create_task_placement(task=task))
        else:
            ev = Event(event_type=ty, time=EventTime(t, U[unit]), task=task)
        evs.append(ev)
    q = EventQueue()
    inq = []  # model of the queue contents (identity)
    popped = []

    def pop_one():
        pk = q.peek()
        e = q.next()
        env.require("peek-is-next", pk is e)
        env.require("pop-member", any(e is x for x in inq))
        others = [x for x in inq if x is not e]
        env.require("pop-is-minimum", sand(*[key_le(e, x) for x in others]))
        if not w.get("plain"):
            env.require("pop-name-order", sand(*[sor(snot(sand(e.time == x.time, e.event_type.value == x.event_type.value)), name_ok(e, x)) for x in others]))
        inq[:] = [x for x in inq if x is not e]
        popped.append(e)

    for op in script:
        if op[0] == "A":
            q.add_event(evs[op[1]])
            inq.append(evs[op[1]])
        elif op[0] == "P":
            if inq:
                pop_one()
        elif op[0] == "R":
            e = evs[op[1]]
            if any(e is x for x in inq):
                nt = env.int(f"rt{op[1]}", 0, 2 ** 40)
                e._time = EventTime(nt, U["US"])
                q.reheapify()
        elif op[0] == "X":
            e = evs[op[1]]
            if any(e is x for x in inq):
                q.remove_event(e)
                inq[:] = [x for x in inq if x is not e]
        env.require("len", len(q) == len(inq))
        # get_next_event_of_type agrees with the definition
        for ty in (() if w.get("plain") else (EventType.TASK_FINISHED,)):
            r = q.get_next_event_of_type(ty)
            same = [x for x in inq if x.event_type == ty]
            if not same:
                env.require("next-of-type-none", r is None)
            else:
                env.require("next-of-type-member", any(r is x for x in same))
                if r is not None:
                    env.require("next-of-type-min", sand(*[r.time <= x.time for x in same]))
    while inq:
        pop_one()
    env.require("drained", len(q) == 0 and q.peek() is None)
    seq_ok = True
    for e1, e2 in zip(popped, popped[1:]):
        pass
    env.observe("order", [evs.index(e) for e in popped])


if __name__ == "__main__":
    import checks.c16 as _m

    sys.exit(harness.main(_m))
