"""C01 -- no worker is ever oversubscribed during a simulation."""
import sys

from vlib import harness, simworld
from vlib import worlds as w
from vlib.simcheck import RT3, SIM_ASSUMPTIONS, SIM_OUTSIDE, small

ID = "C01"
ORACLES = ["C01"]
ANCHORS = [("workload/resources.py", 74, 131), ("workload/resources.py", 169, 203), ("simulator.py", 1362, 1410),
           ("workers/workers.py", 82, 149), ("workers/workers.py", 559, 658), ("schedulers/edf_scheduler.py", 64, 69)]
LIMITS = {"samples_per_job": 1, "validate_per_job": 1}
CRASH_IS_VIOLATION = False  # a run that dies is C05's business; here it only shrinks the explored set (reported in the evidence)
ASSUMPTIONS = SIM_ASSUMPTIONS
OUTSIDE = SIM_OUTSIDE
BOUNDS = "see worlds in coverage; capacities and demands are solver integers in [0, 2^20], several instances of one resource type and two-type demands included"
EXPLANATION = "real Simulator.simulate() executed on all feasible paths of each world; after every placement, every event and every clock step the monitor's own ledger is compared with the configured capacity by z3"
REQUIRED_LABELS = ["C01:within-capacity", "C01:one-worker-per-task", "C01:ledger-nonnegative"]
T2 = ("T0", "T1")


def dem(names, res):
    return {t: {"strategies": [{"rt": RT3, "res": dict(res)}]} for t in names}


def worlds(tier):
    ws = [
        w.W("indep2-1cpu-EDF", w.indep(2), w.C1, "EDF", split=6, weight=40),
        w.W("indep2-2workers-symcap-symdemand-EDF", w.fixed_times(w.indep(2)), w.CSYM2, "EDF", split=5, retry_loops=True, tasks=dem(T2, {"CPU": "sym"})),
        w.W("indep2-noncontiguous-instances-EDF", w.fixed_times(w.indep(2)), w.MULTI, "EDF", split=5, retry_loops=True, tasks=dem(T2, {"CPU": "sym"})),
        w.W("indep2-cpu+gpu-symdemand-EDF", w.fixed_times(w.indep(2)), w.CPUGPU, "EDF", split=5, retry_loops=True, tasks=dem(T2, {"CPU": "sym", "GPU": "sym"}), weight=5),
        w.W("indep2-cpu+gpu-symdemand-FIFO", w.fixed_times(w.indep(2)), w.CPUGPU, "FIFO", split=5, retry_loops=True, tasks=dem(T2, {"CPU": "sym", "GPU": "sym"}), weight=5),
        w.W("indep2-two-strategies-LSF", w.fixed_times(w.indep(2)), w.C2, "LSF", split=5, retry_loops=True, tasks=small(T2, nstrat=2)),
        w.W("indep2-two-strategies-EDF", w.fixed_times(w.indep(2)), w.C2, "EDF", split=5, retry_loops=True, tasks=small(T2, nstrat=2)),
        w.W("indep2-hetero-workers-symdemand-EDF", w.indep(2, release=0), w.HETERO, "EDF", split=6, retry_loops=True, tasks=dem(T2, {"CPU": ["sym", 0, 3]}), weight=10),
        w.W("indep2-two-pools-FIFO", w.indep(2, deadline=10 ** 6), w.P2, "FIFO", split=6, weight=10),
        w.W("indep2-1cpu-havoc-planahead", w.fixed_times(w.indep(2)), w.C1, "HAVOC", split=6, havoc={"max_delta": 2}, tasks=small(T2)),
        w.W("indep2-hetero-havoc", w.fixed_times(w.indep(2)), w.HETERO, "HAVOC", split=6, havoc={"max_delta": 2}, tasks=dem(T2, {"CPU": ["sym", 1, 2]}), weight=10),
        w.W("indep3-request-pinned-to-an-instance-of-the-second-worker-EDF", w.fixed_times(w.indep(3)), w.PINNED, "EDF", split=5, retry_loops=True,
            tasks={"T0": {"strategies": [{"rt": RT3, "res": {"GPU#3": 1}}]}, "T1": {"strategies": [{"rt": RT3, "res": {"GPU": 1}}]}, "T2": {"strategies": [{"rt": RT3, "res": {"GPU": 1}}]}}, weight=30),
        w.W("join3-2cpu-EDF", w.fixed_times(w.join()), w.C2, "EDF", split=6),
        w.W("fork3-symcap-EDF", w.fixed_times(w.fork()), w.CSYM, "EDF", split=6, tasks=dem(("A", "B", "C"), {"CPU": "sym"}), retry_loops=True),
    ]
    if tier == "thorough":
        ws += [
            w.W("indep2-1cpu-FIFO", w.indep(2), w.C1, "FIFO", split=6, weight=40),
            w.W("indep2-1cpu-LSF", w.indep(2), w.C1, "LSF", split=6, weight=40),
            w.W("indep2-two-pools-EDF", w.indep(2), w.P2, "EDF", split=7, weight=60),
            w.W("indep3-2cpu-EDF", w.indep(3, deadline=10 ** 6), w.C2, "EDF", split=9, weight=400),
            w.W("indep3-2workers-symdemand-EDF", w.fixed_times(w.indep(3)), w.CSYM2, "EDF", split=8, retry_loops=True, tasks=dem(("T0", "T1", "T2"), {"CPU": "sym"}), weight=100),
            w.W("indep3-noncontiguous-FIFO", w.fixed_times(w.indep(3)), w.MULTI, "FIFO", split=8, retry_loops=True, tasks=dem(("T0", "T1", "T2"), {"CPU": "sym"}), weight=100),
            w.W("indep3-hetero-havoc", w.fixed_times(w.indep(3)), w.HETERO, "HAVOC", split=9, havoc={"max_delta": 2, "max_unplaced": 0}, tasks=dem(("T0", "T1", "T2"), {"CPU": ["sym", 1, 2]}), weight=300),
            w.W("diamond-2cpu-EDF", w.fixed_times(w.diamond()), w.C2, "EDF", split=8, weight=100),
            w.W("indep3-pinned-instance-symbolic-deadlines-EDF", w.indep(3, release=0), w.PINNED, "EDF", split=7, retry_loops=True,
                tasks={"T0": {"strategies": [{"rt": RT3, "res": {"GPU#3": 1}}]}, "T1": {"strategies": [{"rt": RT3, "res": {"GPU": 1}}]}, "T2": {"strategies": [{"rt": RT3, "res": {"GPU": 1}}]}}, weight=300),
            w.W("indep2-havoc-retract-2strategies", w.fixed_times(w.indep(2)), w.C2, "HAVOC", split=8, havoc={"max_delta": 2, "retract": True}, tasks=small(T2, nstrat=2), weight=200),
        ]
    return ws


def run(env, world):
    simworld.run(env, world, ORACLES)


if __name__ == "__main__":
    import checks.c01 as _m

    sys.exit(harness.main(_m))
