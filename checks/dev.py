"""Developer scratch check: worlds come from the file named by $DEV_WORLDS (python expr using vlib.worlds as `w`)."""
import os
import sys

from vlib import harness, simworld
from vlib import worlds as w  # noqa: F401

ID = "DEV"
LIMITS = {"samples_per_job": 1, "validate_per_job": 1}
ORACLES = os.environ.get("DEV_ORACLES", "C01,C02,C03,C04,C05,C06").split(",")


def worlds(tier):
    return eval(open(os.environ["DEV_WORLDS"]).read())


def run(env, world):
    simworld.run(env, world, ORACLES)


if __name__ == "__main__":
    import checks.dev as _m

    sys.exit(harness.main(_m))
