"""C13 -- EDF, FIFO and LSF honour their priority order (no priority inversion).

One real schedule() call on a directly constructed state: n released tasks (own graphs),
symbolic deadlines / releases / runtimes / demands (deadlines in mixed units), single-worker
pools with symbolic capacities, optionally partly occupied by a running task."""
import sys

from vlib import harness, pysym, stubs
from vlib.pysym import sand, sany, simplies, snot, sor

stubs.install()

from schedulers import EDFScheduler, FIFOScheduler, LSFScheduler  # noqa: E402
from utils import EventTime  # noqa: E402
from workers import Worker, WorkerPool, WorkerPools  # noqa: E402
from workload import (ExecutionStrategies, ExecutionStrategy, Job, JobGraph, Placement, Resource, Resources, Task,  # noqa: E402
                      TaskGraph, TaskState, Workload, WorkProfile)

ID = "C13"
US, MS = EventTime.Unit.US, EventTime.Unit.MS
NULL = stubs.NULL
ANCHORS = [("schedulers/edf_scheduler.py", 78, 166), ("schedulers/fifo_scheduler.py", 58, 139), ("schedulers/lsf_scheduler.py", 53, 111),
           ("workers/workers.py", "Worker.can_accomodate_strategy"), ("workers/workers.py", "WorkerPool.can_accomodate_strategy")]
LIMITS = {"samples_per_job": 1, "validate_per_job": 1}
BOUNDS = ("2-3 (quick) / 4 (thorough) schedulable tasks, 1-2 strategies each, 1-3 single-worker pools (pool == worker), optional running task occupying part of pool 0; "
          "deadlines (us and ms mixed), releases, runtimes, now, demands in [0,8] and capacities in [0,8] are solver integers; ties are paths like any other")
OUTSIDE = "multi-worker pools (the property's observation point prescribes single-worker pools), preemptive mode, more than 4 tasks"
ASSUMPTIONS = ["state constructed through the public API (release / place / start), so it is reachable", "time.time is left real: it only feeds true_runtime; policies get a fixed runtime 0",
               "null loggers; utils.type/int/round shadows"]
EXPLANATION = ("the real schedule() runs on every feasible path (the sort forks on every comparison); for every task answered 'unplaced', every strategy and every pool z3 proves that the strategy "
               "does not fit the capacity left by the running task and by the placed tasks of higher or equal priority (reported strategies)")
REQUIRED_LABELS = ["C13:unplaced-only-if-nothing-fits", "C13:every-offered-task-answered-once", "C13:placed-fits-jointly"]
POL = {"EDF": EDFScheduler, "FIFO": FIFOScheduler, "LSF": LSFScheduler}


def worlds(tier):
    ws = []
    for pol in ("EDF", "FIFO", "LSF"):
        ws.append({"name": f"{pol}-3tasks-1pool", "policy": pol, "n": 3, "nstrat": 1, "pools": 1, "occ": False, "split": 6, "weight": 20, "units": ["US", "MS", "US"]})
        ws.append({"name": f"{pol}-2tasks-2strategies-2pools-occupied", "policy": pol, "n": 2, "nstrat": 2, "pools": 2, "occ": True, "split": 6, "weight": 20, "units": ["MS", "US"]})
        ws.append({"name": f"{pol}-3tasks-2pools", "policy": pol, "n": 3, "nstrat": 1, "pools": 2, "occ": False, "split": 7, "weight": 60, "units": ["US", "US", "MS"],
                   "fixed_demand": True})
    ws.append({"name": "EDF-enforce-3tasks-1pool", "policy": "EDF", "n": 3, "nstrat": 1, "pools": 1, "occ": False, "split": 6, "weight": 30, "enforce": True, "units": ["US", "US", "US"]})
    ws.append({"name": "LSF-late-tasks-3tasks-1pool", "policy": "LSF", "n": 3, "nstrat": 1, "pools": 1, "occ": False, "split": 6, "weight": 30, "units": ["US", "US", "US"], "late": True,
               "fixed_demand": True})
    for pol in (("LSF",) if tier == "quick" else ("LSF", "EDF", "FIFO")):
        # one pool of two workers that own different resource types (the worker a strategy lands on is determined by its type):
        # the policy's bookkeeping of what it has already handed out must agree with the strategy it reports
        ws.append({"name": f"{pol}-2tasks-2strategies-pool-of-two-workers-with-different-resource-types", "policy": pol, "n": 2, "nstrat": 2, "pools": 1, "occ": False, "split": 7, "weight": 40,
                   "units": ["US", "US"], "split_types": True})
    # a task that has already run for a while and was preempted competes with fresh ones: its slack counts what REMAINS of it
    ws.append({"name": "LSF-3tasks-1pool-first-one-preempted-after-progress", "policy": "LSF", "n": 3, "nstrat": 1, "pools": 1, "occ": False, "split": 7, "weight": 40,
               "units": ["US", "US", "US"], "fixed_demand": True, "preempted": True})
    if tier == "thorough":
        # (the full product policy x {4 tasks, 3 pools} ran past 45 minutes: one policy per larger shape)
        ws.append({"name": "EDF-4tasks-2pools", "policy": "EDF", "n": 4, "nstrat": 1, "pools": 2, "occ": False, "split": 9, "weight": 600, "units": ["US", "MS", "US", "MS"], "fixed_demand": True})
        ws.append({"name": "LSF-4tasks-2pools", "policy": "LSF", "n": 4, "nstrat": 1, "pools": 2, "occ": False, "split": 9, "weight": 600, "units": ["US", "MS", "US", "MS"], "fixed_demand": True})
        ws.append({"name": "FIFO-3tasks-2strategies-2pools-occupied", "policy": "FIFO", "n": 3, "nstrat": 2, "pools": 2, "occ": True, "split": 9, "weight": 600, "units": ["US", "MS", "US"]})
    return ws


def mk_task(env, i, w, now):
    unit = w["units"][i]
    k = 1000 if unit == "MS" else 1
    lo = 0
    dl = env.int(f"dl{i}", 0, 2 ** 20)  # in its own unit
    rel = env.int(f"rel{i}", 0, 2 ** 20)
    strats, sp = [], []
    for s in range(w["nstrat"]):
        rt = env.int(f"rt{i}_{s}", 1, 2 ** 20)
        dem = (1 + (i + s) % 2) if w.get("fixed_demand") else env.int(f"dem{i}_{s}", 0, 8)
        rtype = ["CPU", "GPU"][(i + s) % 2] if w.get("split_types") else "CPU"
        strats.append(ExecutionStrategy(resources=Resources({Resource(name=rtype, _id="any"): dem}, _logger=NULL), batch_size=1, runtime=EventTime(rt, US)))
        sp.append((rt, dem, rtype))
    prof = WorkProfile(name=f"p{i}", execution_strategies=ExecutionStrategies(strats))
    name = ["Tb", "Ta", "Tc", "Td"][i]
    t = Task(name=name, task_graph=f"G{i}", job=Job(name=name, profile=prof), deadline=EventTime(dl, MS if unit == "MS" else US), timestamp=0,
             release_time=EventTime(rel, US), _logger=NULL)
    return t, {"dl_us": dl * k, "rel": rel, "strats": sp, "strat_objs": strats}


def run(env, w):
    now = env.int("now", 0, 2 ** 20)
    n = w["n"]
    tasks, params = [], []
    for i in range(n):
        t, p = mk_task(env, i, w, now)
        env.assume(p["rel"] <= now)
        tasks.append(t)
        params.append(p)
    if w.get("late"):
        for p in params:
            pass  # slacks may be negative anyway (deadline unconstrained w.r.t. now)
    tgs = {f"G{i}": TaskGraph(name=f"G{i}", tasks={tasks[i]: []}, job_graph=JobGraph(name=f"J{i}")) for i in range(n)}
    caps = [env.int(f"cap{k}", 0, 8) for k in range(w["pools"])]
    pools = [WorkerPool(name=f"P{k}", workers=[Worker(name=f"W{k}", resources=Resources({Resource(name="CPU"): caps[k]}, _logger=NULL), _logger=NULL)], _logger=NULL)
             for k in range(w["pools"])]
    capg = None
    if w.get("split_types"):
        capg = env.int("capg", 0, 8)
        pools = [WorkerPool(name="P0", workers=[Worker(name="Wgpu", resources=Resources({Resource(name="GPU"): capg}, _logger=NULL), _logger=NULL),
                                                Worker(name="Wcpu", resources=Resources({Resource(name="CPU"): caps[0]}, _logger=NULL), _logger=NULL)], _logger=NULL)]

    def cap_of(k, rtype):
        return capg if rtype == "GPU" else caps[k]

    wps = WorkerPools(pools)
    occ = [0] * w["pools"]
    if w["occ"]:
        # a running task holds part of pool 0
        od = env.int("occ_dem", 0, 8)
        ort = env.int("occ_rt", 1, 2 ** 20)
        env.assume(od <= caps[0])
        st = ExecutionStrategy(resources=Resources({Resource(name="CPU", _id="any"): od}, _logger=NULL), batch_size=1, runtime=EventTime(ort, US))
        rt_ = Task(name="R", task_graph="GR", job=Job(name="R", profile=WorkProfile(name="pr", execution_strategies=ExecutionStrategies([st]))),
                   deadline=EventTime(2 ** 21, US), timestamp=0, release_time=EventTime(0, US), _logger=NULL)
        tgs["GR"] = TaskGraph(name="GR", tasks={rt_: []}, job_graph=JobGraph(name="JR"))
        rt_.release(EventTime(0, US))
        rt_.schedule(EventTime(0, US), Placement.create_task_placement(task=rt_, placement_time=EventTime(0, US), worker_pool_id=pools[0].id, execution_strategy=st))
        assert pools[0].place_task(rt_, execution_strategy=st)
        rt_.start(EventTime(0, US))
        occ[0] = od
    for t, p in zip(tasks, params):
        t.release(EventTime(p["rel"], US))
    prog = None
    if w.get("preempted"):
        # task 0 ran from its release for `prog` microseconds on pool 0, then was preempted (public lifecycle calls only)
        t0, p0 = tasks[0], params[0]
        rt0, dem0, _ = p0["strats"][0]
        prog = env.int("prog", 1, 2 ** 20)
        env.assume(sand(prog < rt0, p0["rel"] + prog <= now, dem0 <= caps[0]))
        st0 = p0["strat_objs"][0]
        t0.schedule(EventTime(p0["rel"], US), Placement.create_task_placement(task=t0, placement_time=EventTime(p0["rel"], US), worker_pool_id=pools[0].id, execution_strategy=st0))
        assert pools[0].place_task(t0, execution_strategy=st0)
        t0.start(EventTime(p0["rel"], US))
        t0.step(EventTime(p0["rel"], US), EventTime(prog, US))
        pools[0].remove_task(EventTime(p0["rel"] + prog, US), t0)
        t0.preempt(EventTime(p0["rel"] + prog, US))
    wl = Workload.from_task_graphs(tgs)
    sch = POL[w["policy"]](runtime=EventTime.zero(), **({"enforce_deadlines": True} if w.get("enforce") else {}))
    pls = sch.schedule(EventTime(now, US), wl, wps)
    # ---- read the decision
    by_task = {}
    for pl in pls:
        by_task.setdefault(pl.task.name, []).append(pl)
    env.require("C13:every-offered-task-answered-once", all(len(by_task.get(t.name, [])) == 1 for t in tasks), str({k: len(v) for k, v in by_task.items()}))
    pid = {p.id: k for k, p in enumerate(pools)}

    def key(i):
        p = params[i]
        if w["policy"] == "EDF":
            return p["dl_us"]
        if w["policy"] == "FIFO":
            return p["rel"]
        slow = p["strats"][0][0]
        for (rt, _, _) in p["strats"][1:]:
            slow = pysym.site(rt > slow, rt, slow)
        if prog is not None and i == 0:
            slow = slow - prog  # what remains of the preempted task
        return p["dl_us"] - now - slow

    keys = [key(i) for i in range(n)]
    placed = {}  # i -> (pool, demand)
    for i, t in enumerate(tasks):
        pl = by_task.get(t.name, [None])[0]
        if pl is None or pl.placement_type != Placement.PlacementType.PLACE_TASK or not pl.is_placed():
            continue
        si = [k for k, so in enumerate(params[i]["strat_objs"]) if so is pl.execution_strategy]
        env.require("C13:strategy-belongs-to-task", len(si) == 1)
        if len(si) == 1:
            placed[i] = (pid[pl.worker_pool_id], params[i]["strats"][si[0]][1], params[i]["strats"][si[0]][2])
        env.require("C13:placed-now", pl.placement_time == EventTime(now, US))
    # joint fit of what was placed
    for k in range(w["pools"]):
        for rtype in (("CPU", "GPU") if w.get("split_types") else ("CPU",)):
            env.require("C13:placed-fits-jointly", (occ[k] if rtype == "CPU" else 0) + sum(d for (pk, d, ty) in placed.values() if pk == k and ty == rtype) <= cap_of(k, rtype), f"pool {k} {rtype}")
    order = []
    for i, t in enumerate(tasks):
        pl = by_task.get(t.name, [None])[0]
        if pl is None:
            continue
        if pl.placement_type == Placement.PlacementType.CANCEL_TASK:
            continue
        if pl.is_placed():
            continue
        # unplaced: no strategy may fit any pool once the placed tasks of higher-or-equal priority are accounted for
        for (rt, dem, rtype) in params[i]["strats"]:
            for k in range(w["pools"]):
                used = occ[k] if rtype == "CPU" else 0
                for j, (pk, dj, tyj) in placed.items():
                    if pk == k and tyj == rtype:
                        used = used + pysym.site(keys[j] <= keys[i], dj, 0)
                env.require("C13:unplaced-only-if-nothing-fits", dem > cap_of(k, rtype) - used, f"task {i} pool {k} {rtype}")
    env.observe("placed", sorted((i, pk) for i, (pk, d, ty) in placed.items()))
    harness.finish_path(env)


if __name__ == "__main__":
    import checks.c13 as _m

    sys.exit(harness.main(_m))
