"""C02 -- tasks start only after release and after all predecessors finish."""
import sys

from vlib import harness, simworld
from vlib import worlds as w
from vlib.simcheck import RT3, SIM_ASSUMPTIONS, SIM_OUTSIDE, small

ID = "C02"
ORACLES = ["C02"]
ANCHORS = [("simulator.py", 1303, 1359), ("workload/tasks.py", 522, 550), ("workload/tasks.py", 859, 965), ("simulator.py", 1213, 1271),
           ("workload/tasks.py", 289, 292), ("simulator.py", 952, 964)]
LIMITS = {"samples_per_job": 1, "validate_per_job": 1}
CRASH_IS_VIOLATION = False
ASSUMPTIONS = SIM_ASSUMPTIONS
OUTSIDE = SIM_OUTSIDE
BOUNDS = "chains, forks, joins, skip-diamond, conditionals (2- and 3-way) with <=5 tasks; greedy policies and the solver-driven plan-ahead policy (lookahead, release_taskgraphs, retraction); release/runtime/deadline symbolic"
EXPLANATION = "real Simulator.simulate() on all feasible paths; at every Task.start the monitor asserts (z3) start >= release and every predecessor COMPLETED with completion <= start (join: the taken branch)"
REQUIRED_LABELS = ["C02:start-once", "C02:start-after-release", "C02:start-after-predecessors", "C02:finish-once", "C02:released-before-start"]
AB = ("T0", "T1")
CJ = ("C", "a", "b", "J")


def worlds(tier):
    hv = {"max_delta": 2}
    ws = [
        w.W("chain2-1cpu-EDF", w.chain(2), w.C1, "EDF", split=4),
        w.W("chain2-child-release-time-FIFO", w.chain(2), w.C1, "FIFO", split=5, tasks={"T1": {"release": "sym"}}),
        w.W("fork-2cpu-LSF", w.fork(), w.C2, "LSF", split=6, weight=20),
        w.W("join-2cpu-EDF", w.join(), w.C2, "EDF", split=6, weight=20),
        w.W("skipdiamond-1cpu-EDF", w.skipdiamond(), w.C1, "EDF", split=6, weight=10),
        w.W("cond2-1cpu-EDF-fixedtimes", w.fixed_times(w.cond2()), w.C1, "EDF", split=6, weight=10),
        w.W("chain2-havoc-release_taskgraphs", w.fixed_times(w.chain(2)), w.C1, "HAVOC", split=6, havoc=dict(hv, release_taskgraphs=True), tasks=small(AB)),
        w.W("chain2-havoc-lookahead", w.fixed_times(w.chain(2)), w.C1, "HAVOC", split=6, havoc=dict(hv, lookahead="sym"), tasks=small(AB)),
        w.W("chain2-havoc-retract", w.fixed_times(w.chain(2)), w.C1, "HAVOC", split=7, havoc=dict(hv, release_taskgraphs=True, retract=True), tasks=small(AB), weight=30),
        w.W("cond2-havoc-release_taskgraphs-2cpu", w.fixed_times(w.cond2()), w.C2, "HAVOC", split=8,
            havoc=dict(hv, release_taskgraphs=True, max_unplaced=0, first_pool_only=True), tasks=small(CJ), weight=60),
        w.W("three-invocations-of-one-operator-havoc-release_taskgraphs", w.fixed_times(w.chain(3)), w.C2, "HAVOC", split=8,
            havoc=dict(hv, release_taskgraphs=True, max_unplaced=0, first_pool_only=True), weight=60,
            tasks={f"T{i}": dict({"strategies": [{"rt": RT3}], "operator": "Camera", "timestamp": i}, **({"release": ["sym", 0, 4]} if i else {})) for i in range(3)}),
        w.W("fork-children-with-their-own-release-times-EDF", w.fixed_times(w.fork()), w.C2, "EDF", split=6, weight=30,
            tasks={"A": {"strategies": [{"rt": RT3}]}, "B": {"strategies": [{"rt": 2}], "release": ["sym", 0, 6]}, "C": {"strategies": [{"rt": 2}], "release": ["sym", 0, 6]}}),
        w.W("join-havoc-release_taskgraphs-2cpu", w.fixed_times(w.join()), w.C2, "HAVOC", split=8,
            havoc=dict(hv, release_taskgraphs=True, max_unplaced=0), tasks=small(("A", "B", "C")), weight=60),
    ]
    if tier == "thorough":
        ws += [
            w.W("chain3-1cpu-EDF", w.chain(3), w.C1, "EDF", split=6, weight=30),
            w.W("diamond-2cpu-EDF", w.diamond(), w.C2, "EDF", split=8, weight=200),
            w.W("cond3-1cpu-FIFO", w.fixed_times(w.cond3()), w.C1, "FIFO", split=7, weight=60),
            w.W("cond-uneven-2cpu-EDF", w.fixed_times(w.cond_uneven()), w.C2, "EDF", split=7, weight=60),
            w.W("cond2-1cpu-EDF", w.cond2(), w.C1, "EDF", split=8, weight=300),
            w.W("cond2-havoc-lookahead-retract-delta1", w.fixed_times(w.cond2()), w.C2, "HAVOC", split=10,
                havoc=dict(max_delta=1, lookahead=["sym", 0, 3], retract=True, max_unplaced=0, max_replans=1, first_pool_only=True), tasks=small(CJ), weight=500),
            w.W("cond-tail-havoc-release_taskgraphs", w.fixed_times(w.cond_tail()), w.C2, "HAVOC", split=9,
                havoc=dict(hv, release_taskgraphs=True, max_unplaced=0, first_pool_only=True, future=False), tasks=small(("C", "a", "b", "J", "Z")), weight=300),
            w.W("fork-child-release-times-EDF", w.fork(), w.C2, "EDF", split=8, tasks={"B": {"release": "sym"}, "C": {"release": "sym"}}, weight=200),
        ]
    return ws


def run(env, world):
    simworld.run(env, world, ORACLES)


if __name__ == "__main__":
    import checks.c02 as _m

    sys.exit(harness.main(_m))
