"""C10 (greedy part) -- EDF / FIFO / LSF return a complete, feasible, side-effect-free decision on
API-constructed mixed states: released tasks + a running task + a task scheduled for later, on
heterogeneous multi-worker pools, all numerics symbolic."""
import sys

from vlib import harness, pysym, stubs
from vlib.pysym import sand, sany, simplies, snot, sor

stubs.install()

import checks.c13 as c13  # noqa: E402
from schedulers import EDFScheduler, FIFOScheduler, LSFScheduler  # noqa: E402
from utils import EventTime  # noqa: E402
from workers import Worker, WorkerPool, WorkerPools  # noqa: E402
from workload import (ExecutionStrategies, ExecutionStrategy, Job, JobGraph, Placement, Resource, Resources, Task,  # noqa: E402
                      TaskGraph, TaskState, Workload, WorkProfile)

ID = "C10"
US = EventTime.Unit.US
NULL = stubs.NULL
ANCHORS = [("schedulers/edf_scheduler.py", "EDFScheduler.schedule"), ("schedulers/fifo_scheduler.py", "FIFOScheduler.schedule"),
           ("schedulers/lsf_scheduler.py", "LSFScheduler.schedule"), ("workers/workers.py", "WorkerPools.__copy__"), ("workers/workers.py", "WorkerPool.place_task")]
LIMITS = {"samples_per_job": 1, "validate_per_job": 1}
BOUNDS = ("2-3 released tasks with 1-2 strategies, optionally a running task and a task scheduled for later; pools: one 2-worker heterogeneous pool, or two pools; "
          "capacities/demands in [0,8], times symbolic")
OUTSIDE = "preemptive mode; Clockwork (see C15 part); more than 3 offered tasks"
ASSUMPTIONS = ["states are built through the public API (release / schedule / place / start)", "joint feasibility witness = first-fit replay of the returned placements, in the returned order, on the monitor's own ledger"]
EXPLANATION = ("all feasible paths of the real schedule(); z3 proves: one decision per offered task and none for running / previously scheduled ones, existing pool, own strategy, time == now >= release, "
               "first-fit replay of the plan on an independent ledger never exceeds a worker's capacity, every getter of the live cluster and every task field is unchanged")
REQUIRED_LABELS = ["C10:one-decision-per-offered-task", "C10:no-decision-for-started-or-scheduled-task", "C10:pool-exists", "C10:strategy-belongs-to-task", "C10:time-not-before-now-or-release",
                   "C10:plan-fits-capacity", "C10:side-effect-free"]
POL = {"EDF": EDFScheduler, "FIFO": FIFOScheduler, "LSF": LSFScheduler}


def worlds(tier):
    ws = []
    for pol in ("EDF", "FIFO", "LSF"):
        ws.append({"name": f"{pol}-2tasks-2strategies-hetero-pool-running+scheduled", "policy": pol, "n": 2, "nstrat": 2, "layout": "hetero", "extra": True, "split": 6, "weight": 40,
                   "units": ["US", "MS"]})
        ws.append({"name": f"{pol}-3tasks-two-pools-running", "policy": pol, "n": 3, "nstrat": 1, "layout": "two-pools", "extra": True, "split": 7, "weight": 60, "units": ["US", "US", "MS"],
                   "fixed_demand": True})
    ws.append({"name": "EDF-enforce-2tasks-hetero", "policy": "EDF", "n": 2, "nstrat": 1, "layout": "hetero", "extra": False, "split": 6, "weight": 20, "units": ["US", "US"], "enforce": True})
    if tier == "thorough":
        # (with symbolic demands the three 3-task worlds took 10.6 million paths / 70+ minutes: demands are fixed here, everything else symbolic)
        for pol in ("EDF", "FIFO", "LSF"):
            ws.append({"name": f"{pol}-3tasks-2strategies-hetero-running+scheduled", "policy": pol, "n": 3, "nstrat": 2, "layout": "hetero", "extra": True, "split": 9, "weight": 600,
                       "units": ["US", "MS", "US"], "fixed_demand": True})
    return ws


def snapshot(workers, tasks):
    out = []
    for wk in workers:
        r = Resource(name="CPU", _id="any")
        out.append(wk.resources.get_available_quantity(r))
        out.append(wk.resources.get_allocated_quantity(r))
        out.append(sorted(t.name for t in wk.get_placed_tasks()))
    for t in tasks:
        out += [t.state.name, t.release_time.time, t.start_time.time, t.deadline.time, t.remaining_time.time, t.worker_pool_id]
    return out


def same(a, b):
    conds = []
    for x, y in zip(a, b):
        conds.append(x == y)
    return sand(*conds)


def run(env, w):
    now = env.int("now", 0, 2 ** 20)
    n = w["n"]
    tasks, params = [], []
    for i in range(n):
        t, p = c13.mk_task(env, i, w, now)
        env.assume(p["rel"] <= now)
        tasks.append(t)
        params.append(p)
    tgs = {f"G{i}": TaskGraph(name=f"G{i}", tasks={tasks[i]: []}, job_graph=JobGraph(name=f"J{i}")) for i in range(n)}
    if w["layout"] == "hetero":
        caps = [env.int("cap0", 0, 8), env.int("cap1", 0, 8)]
        wks = [Worker(name=f"W{k}", resources=Resources({Resource(name="CPU"): caps[k]}, _logger=NULL), _logger=NULL) for k in range(2)]
        pools = [WorkerPool(name="P0", workers=wks, _logger=NULL)]
        pool_workers = [[0, 1]]
    else:
        caps = [env.int("cap0", 0, 8), env.int("cap1", 0, 8)]
        wks = [Worker(name=f"W{k}", resources=Resources({Resource(name="CPU"): caps[k]}, _logger=NULL), _logger=NULL) for k in range(2)]
        pools = [WorkerPool(name=f"P{k}", workers=[wks[k]], _logger=NULL) for k in range(2)]
        pool_workers = [[0], [1]]
    wps = WorkerPools(pools)
    used = [0, 0]
    extra_tasks = []
    if w["extra"]:
        # a running task on worker 0 ...
        od = env.int("run_dem", 0, 8)
        env.assume(od <= caps[0])
        st = ExecutionStrategy(resources=Resources({Resource(name="CPU", _id="any"): od}, _logger=NULL), batch_size=1, runtime=EventTime(env.int("run_rt", 1, 2 ** 20), US))
        rt_ = Task(name="R", task_graph="GR", job=Job(name="R", profile=WorkProfile(name="pr", execution_strategies=ExecutionStrategies([st]))),
                   deadline=EventTime(2 ** 21, US), timestamp=0, release_time=EventTime(0, US), _logger=NULL)
        tgs["GR"] = TaskGraph(name="GR", tasks={rt_: []}, job_graph=JobGraph(name="JR"))
        rt_.release(EventTime(0, US))
        rt_.schedule(EventTime(0, US), Placement.create_task_placement(task=rt_, placement_time=EventTime(0, US), worker_pool_id=pools[0].id, worker_id=wks[0].id, execution_strategy=st))
        assert pools[0].place_task(rt_, execution_strategy=st, worker_id=wks[0].id)
        rt_.start(EventTime(0, US))
        used[0] = od
        # ... and a task scheduled for later (not resident yet)
        st2 = ExecutionStrategy(resources=Resources({Resource(name="CPU", _id="any"): 1}, _logger=NULL), batch_size=1, runtime=EventTime(5, US))
        sc_ = Task(name="S", task_graph="GS", job=Job(name="S", profile=WorkProfile(name="ps", execution_strategies=ExecutionStrategies([st2]))),
                   deadline=EventTime(2 ** 21, US), timestamp=0, release_time=EventTime(0, US), _logger=NULL)
        tgs["GS"] = TaskGraph(name="GS", tasks={sc_: []}, job_graph=JobGraph(name="JS"))
        sc_.release(EventTime(0, US))
        later = env.int("sched_at", 0, 2 ** 21)
        env.assume(later >= now)
        sc_.schedule(EventTime(0, US), Placement.create_task_placement(task=sc_, placement_time=EventTime(later, US), worker_pool_id=pools[-1].id, execution_strategy=st2))
        extra_tasks = [rt_, sc_]
    for t, p in zip(tasks, params):
        t.release(EventTime(p["rel"], US))
    wl = Workload.from_task_graphs(tgs)
    sch = POL[w["policy"]](runtime=EventTime.zero(), **({"enforce_deadlines": True} if w.get("enforce") else {}))
    before = snapshot(wks, tasks + extra_tasks)
    pls = list(sch.schedule(EventTime(now, US), wl, wps))
    after = snapshot(wks, tasks + extra_tasks)
    env.require("C10:side-effect-free", same(before, after))
    by = {}
    for pl in pls:
        by.setdefault(pl.task.name, []).append(pl)
    env.require("C10:one-decision-per-offered-task", all(len(by.get(t.name, [])) == 1 for t in tasks), str({k: len(v) for k, v in by.items()}))
    env.require("C10:no-decision-for-started-or-scheduled-task", all(t.name not in by for t in extra_tasks), str(sorted(by)))
    known = {t.name for t in tasks} | {t.name for t in extra_tasks}
    env.require("C10:only-known-tasks", all(k in known for k in by))
    pool_ids = [p.id for p in pools]
    for i, t in enumerate(tasks):
        for pl in by.get(t.name, []):
            if pl.placement_type != Placement.PlacementType.PLACE_TASK or not pl.is_placed():
                continue
            env.require("C10:pool-exists", pl.worker_pool_id in pool_ids)
            si = [k for k, so in enumerate(params[i]["strat_objs"]) if so is pl.execution_strategy]
            env.require("C10:strategy-belongs-to-task", len(si) == 1)
            env.require("C10:time-not-before-now-or-release", sand(pl.placement_time.time >= now, pl.placement_time.time >= params[i]["rel"]))
    # joint feasibility: first-fit replay in the returned order on an independent ledger
    for pl in pls:
        if pl.placement_type != Placement.PlacementType.PLACE_TASK or not pl.is_placed() or pl.worker_pool_id not in pool_ids:
            continue
        i = [k for k, t in enumerate(tasks) if t is pl.task]
        if not i:
            continue
        i = i[0]
        si = [k for k, so in enumerate(params[i]["strat_objs"]) if so is pl.execution_strategy]
        if not si:
            continue
        dem = params[i]["strats"][si[0]][1]
        cands = pool_workers[pool_ids.index(pl.worker_pool_id)]
        placed_on = None
        for k in cands:
            if caps[k] - used[k] >= dem:  # forks: which worker first-fit picks
                placed_on = k
                break
        env.require("C10:plan-fits-capacity", placed_on is not None, f"task {i} with demand on pool {pool_ids.index(pl.worker_pool_id)}")
        if placed_on is not None:
            used[placed_on] = used[placed_on] + dem
    env.observe("plan", sorted((p.task.name, p.is_placed()) for p in pls if p.placement_type == Placement.PlacementType.PLACE_TASK))
    harness.finish_path(env)


if __name__ == "__main__":
    import checks.c10_sym as _m

    sys.exit(harness.main(_m))
