"""C10 -- every policy returns a complete, feasible, side-effect-free decision: greedy policies by
symbolic execution of schedule(), planners over every solution of their captured model."""
import sys

from vlib import combine

if __name__ == "__main__":
    import checks.c10_mip as mip
    import checks.c10_sym as sym

    sys.exit(combine.main("C10", [("sym", sym), ("mip", mip)]))
