"""C19 -- workload and cluster descriptions are instantiated faithfully.

The real WorkloadLoader / WorkerLoader constructors run on a parsed description tree whose integers are
solver variables (json.load / open inside the loader modules are replaced by stubs returning the tree);
release-time generation, task-graph instantiation, deadline assignment and the closed loop run for real."""
import sys
import types

from vlib import harness, pysym, stubs
from vlib.pysym import sand, sany, simplies, snot, sor

stubs.install()

import data.worker_loader as wl_mod  # noqa: E402
import data.workload_loader as ld_mod  # noqa: E402
import workload.jobs as jobs_mod  # noqa: E402
from data.worker_loader import WorkerLoader  # noqa: E402
from data.workload_loader import WorkloadLoader  # noqa: E402
from utils import EventTime  # noqa: E402
from workload import JobGraph, Resource, TaskState  # noqa: E402

ID = "C19"
US = EventTime.Unit.US
ANCHORS = [("data/workload_loader.py", "WorkloadLoader.__init__"), ("data/workload_loader.py", "WorkloadLoader.load_job_graph"),
           ("data/workload_loader.py", "WorkloadLoader.__create_release_policy"), ("data/workload_loader.py", "WorkloadLoader.__create_execution_strategies"),
           ("data/worker_loader.py", "WorkerLoader.__create_worker_pools"), ("workload/jobs.py", "JobGraph.ReleasePolicy.get_release_times"),
           ("workload/jobs.py", "JobGraph._generate_task_graph"), ("workload/workload.py", "Workload.notify_task_graph_completion"), ("utils.py", "EventTime.fuzz")]
LIMITS = {"samples_per_job": 1, "validate_per_job": 1}
BOUNDS = ("description shapes: 1-2 graphs of <=4 nodes (chain, fork, conditional), 1-2 profiles with 1-2 strategies, resource keys 'X:any' / 'X:<id>' / bare 'X', every release policy, "
          "deadline variance in {absent,(0,0),(10,10),(0,50),(20,60)}, replication 1-2; every integer (runtimes, quantities, batch sizes, period, start, slo, min/max deadline) symbolic; invocations 1-3 by solver choice")
OUTSIDE = "YAML/JSON lexing (yaml.safe_load / json.load run concretely on the repository's own files only); fixed_gamma policy; numpy's arange/linspace/poisson/gamma are stubbed by their contract"
ASSUMPTIONS = ["data.workload_loader.open/json and data.worker_loader.open/json are replaced by stubs that return the description tree",
               "workload.jobs.np is replaced by a proxy: arange(a,b,s) = [a, a+s, ...) below b; linspace(a, a+p*n, n, endpoint=False) = a + i*p (exact on integers below 2^53); "
               "default_rng().poisson -> arbitrary non-negative integers, .gamma -> arbitrary positive reals",
               "EventTime._rng.uniform(a,b) -> arbitrary real in [a,b]; the float expression time*|v|/100.0 is evaluated in exact real arithmetic (its enclosure under IEEE rounding is the +-1 slack of the oracle)",
               "periodic policy: the horizon is bounded to <= 4 periods after the start so that the unrolling is finite"]
EXPLANATION = "all feasible paths of the real loader / release-policy / instantiation code over symbolic description integers; z3 compares the object graph field by field with the description"
REQUIRED_LABELS = ["C19:jobs-and-edges", "C19:per-node-fields", "C19:strategies", "C19:release-policy-parameters", "C19:fixed-releases", "C19:periodic-releases", "C19:poisson-releases",
                   "C19:gamma-releases", "C19:closed-loop", "C19:fresh-isomorphic-copies", "C19:deadline-within-variance", "C19:workers"]


# ----------------------------------------------------------------------------------------- stubs

class _FakeFile:
    def __enter__(self):
        return self

    def __exit__(self, *a):
        return False


class _FakeJson:
    def __init__(self, tree):
        self.tree = tree

    def load(self, f):
        return self.tree


class _FakeRng:
    def poisson(self, lam, size):
        env = harness.CUR_ENV
        return [env.int("pois", 0, 2 ** 20) for _ in range(size)]

    def gamma(self, shape, scale, size):
        env = harness.CUR_ENV
        return [env.real("gam", 0, 2 ** 20) for _ in range(size)]


class _NpRandom:
    @staticmethod
    def default_rng(seed=None):
        return _FakeRng()


class _NpProxy:
    random = _NpRandom()

    @staticmethod
    def arange(a, b, s):
        out, x, n = [], a, 0
        while x < b:
            out.append(x)
            x = x + s
            n += 1
            if n > 8:
                raise pysym.LoopBudget("arange unrolled beyond 8")
        return out

    @staticmethod
    def linspace(a, b, num, endpoint):
        assert endpoint is False
        if num <= 0:
            return []
        return [a + i * ((b - a) / num) for i in range(num)]


class _Uniform:
    def uniform(self, a, b):
        env = harness.CUR_ENV
        if not isinstance(a, pysym.SNum) and not isinstance(b, pysym.SNum) and a == b:
            return a
        u = env.real("u")
        env.assume(sand(u >= a, u <= b))
        return u


jobs_mod.np = _NpProxy()
if not stubs.CONCRETE:
    jobs_mod.int = pysym.sym_int
    jobs_mod.round = pysym.sym_round
EventTime._rng = _Uniform()


def worlds(tier):
    ws = []
    for pol in ("fixed", "periodic", "poisson", "gamma", "closed_loop"):
        ws.append({"name": f"chain2-{pol}", "kind": "workload", "shape": "chain2", "policy": pol, "variance": [10, 10], "split": 5, "weight": 10})
    ws.append({"name": "fork3-slo-nodes-fixed", "kind": "workload", "shape": "fork-slo", "policy": "fixed", "variance": None, "split": 5, "weight": 10})
    ws.append({"name": "cond4-fixed-variance-range", "kind": "workload", "shape": "cond", "policy": "fixed", "variance": [0, 50], "split": 6, "weight": 20})
    ws.append({"name": "two-graphs-second-without-variance", "kind": "workload", "shape": "two", "policy": "fixed", "variance": [20, 60], "split": 6, "weight": 20})
    ws.append({"name": "chain2-fixed-with-flags-bounds-and-overrides", "kind": "workload", "shape": "chain2", "policy": "fixed", "variance": [0, 50], "flags": True, "split": 6, "weight": 20})
    ws.append({"name": "chain2-periodic-with-flags", "kind": "workload", "shape": "chain2", "policy": "periodic", "variance": None, "flags": True, "split": 5, "weight": 10})
    ws.append({"name": "chain2-fixed-replicated", "kind": "workload", "shape": "chain2", "policy": "fixed", "variance": [0, 0], "flags": True, "replication": 2, "split": 5, "weight": 10})
    ws.append({"name": "fork3-slo-nodes-with-override_slo-flag", "kind": "workload", "shape": "fork-slo", "policy": "fixed", "variance": None, "flags": True, "override_slo": True, "split": 6, "weight": 20})
    ws.append({"name": "chain2-closed-loop-with-flags-bounds", "kind": "workload", "shape": "chain2", "policy": "closed_loop", "variance": [0, 50], "flags": True, "split": 6, "weight": 20,
               "fixed_loop": [3, 2]})
    ws.append({"name": "fork3-two-strategy-profiles-fixed", "kind": "workload", "shape": "fork", "policy": "fixed", "variance": None, "split": 5, "weight": 10})
    ws.append({"name": "workers", "kind": "workers", "split": 4})
    if tier == "thorough":
        ws.append({"name": "cond4-closed-loop", "kind": "workload", "shape": "cond", "policy": "closed_loop", "variance": [0, 50], "split": 7, "weight": 60})
        ws.append({"name": "chain2-closed-loop-with-flags-every-invocation-and-concurrency", "kind": "workload", "shape": "chain2", "policy": "closed_loop", "variance": [0, 50], "flags": True, "split": 9, "weight": 400})
        ws.append({"name": "fork3-slo-nodes-periodic-with-override", "kind": "workload", "shape": "fork-slo", "policy": "periodic", "variance": None, "flags": True, "override_slo": True, "split": 8, "weight": 200})
        ws.append({"name": "fork3-two-strategy-profiles-closed-loop", "kind": "workload", "shape": "fork", "policy": "closed_loop", "variance": [10, 10], "split": 8, "weight": 200})
        ws.append({"name": "two-graphs-poisson+gamma", "kind": "workload", "shape": "two", "policy": "poisson", "variance": [10, 10], "split": 7, "weight": 60, "second_policy": "gamma"})
    return ws


def graph_nodes(env, shape, tag=""):
    S = lambda n: env.int(f"slo_{tag}{n}", 1, 2 ** 20)  # noqa: E731
    if shape == "chain2":
        return [{"name": "A", "work_profile": "P0", "children": ["B"]}, {"name": "B", "work_profile": "P1"}]
    if shape == "fork-slo":
        return [{"name": "A", "work_profile": "P0", "children": ["B", "C"]}, {"name": "B", "work_profile": "P1", "slo": S("B")}, {"name": "C", "work_profile": "P0"}]
    if shape == "fork":
        return [{"name": "A", "work_profile": "P0", "children": ["B", "C"]}, {"name": "B", "work_profile": "P1"}, {"name": "C", "work_profile": "P0"}]
    if shape == "cond":
        return [{"name": "C", "work_profile": "P0", "conditional": True, "children": ["a", "b"]}, {"name": "a", "work_profile": "P1", "probability": 0.25, "children": ["J"]},
                {"name": "b", "work_profile": "P0", "probability": 0.75, "children": ["J"]}, {"name": "J", "work_profile": "P1", "terminal": True}]
    raise ValueError(shape)


def profiles(env):
    def strat(tag, keys):
        return {"batch_size": env.int(f"bs_{tag}", 1, 8), "runtime": env.int(f"rt_{tag}", 1, 2 ** 20),
                "resource_requirements": {k: env.int(f"q_{tag}_{k.replace(':', '_')}", 0, 2 ** 10) for k in keys}}

    return [{"name": "P0", "execution_strategies": [strat("P0s0", ["CPU:any"]), strat("P0s1", ["CPU:any", "GPU:gpu0"])], "loading_strategies": [strat("P0l", ["RAM:any"])]},
            {"name": "P1", "execution_strategies": [strat("P1s0", ["GPU:any"])]}]


def policy_fields(env, pol, tag="", fixed_loop=None):
    d = {"release_policy": pol}
    if fixed_loop:  # (invocations, concurrency) given: one shape of closed loop, no start offset
        d.update(invocations=fixed_loop[0], concurrency=fixed_loop[1])
        return d
    if pol in ("fixed", "periodic"):
        d["period"] = env.int(f"period{tag}", 1, 2 ** 20)
    if pol in ("fixed", "poisson", "gamma", "closed_loop"):
        d["invocations"] = 1 + env.choose(3, f"inv{tag}")
    if pol in ("poisson", "gamma"):
        d["rate"] = 0.5
    if pol == "gamma":
        d["coefficient"] = 2.0
    if pol == "closed_loop":
        d["concurrency"] = 1 + env.choose(3, f"conc{tag}")
    if env.choose(2, f"has_start{tag}") == 1:
        d["start"] = env.int(f"start{tag}", 0, 2 ** 20)
    return d


def run(env, w):
    if w["kind"] == "workers":
        run_workers(env)
    else:
        run_workload(env, w)
    harness.finish_path(env)


def run_workers(env):
    tree = [{"name": "Pool0", "workers": [
        {"name": "W0", "resources": [{"name": "CPU", "quantity": env.int("c0", 0, 2 ** 10)}, {"name": "CPU", "quantity": env.int("c1", 0, 2 ** 10)},
                                     {"name": "GPU:gpu0", "quantity": env.int("g0", 0, 2 ** 10)}]},
        {"name": "W1", "resources": [{"name": "CPU:any", "quantity": env.int("c2", 0, 2 ** 10)}]}]},
        {"name": "Pool1", "workers": [{"name": "W2", "resources": [{"name": "RAM", "quantity": env.int("r0", 0, 2 ** 10)}]}]}]
    wl_mod.open = lambda *a, **k: _FakeFile()
    wl_mod.json = _FakeJson(tree)
    pools = list(WorkerLoader("cluster.json").get_worker_pools().worker_pools)
    ok = [len(pools) == 2, [p.name for p in pools] == ["Pool0", "Pool1"]]
    for p, pt in zip(pools, tree):
        ok.append([wk.name for wk in p.workers] == [x["name"] for x in pt["workers"]])
        for wk, wt in zip(p.workers, pt["workers"]):
            got = list(wk.resources.resources)
            ok.append(len(got) == len(wt["resources"]))
            for (r, q), rt in zip(got, wt["resources"]):
                nm = rt["name"].split(":")
                ok.append(r.name == nm[0])
                if len(nm) > 1:
                    ok.append(r.id == nm[1])
                ok.append(q == rt["quantity"])
            for nm in {rt["name"].split(":")[0] for rt in wt["resources"]}:
                tot = sum(rt["quantity"] for rt in wt["resources"] if rt["name"].split(":")[0] == nm)
                any_r = Resource(name=nm, _id="any")
                ok.append(sand(wk.resources.get_total_quantity(any_r) == tot, wk.resources.get_available_quantity(any_r) == tot))
    env.require("C19:workers", sand(*ok))
    env.observe("pools", [p.name for p in pools])


def run_workload(env, w):
    shape, pol = w["shape"], w["policy"]
    profs = profiles(env)
    graphs = []
    if shape == "two":
        g0 = dict({"name": "G0", "graph": graph_nodes(env, "chain2", "g0")}, **policy_fields(env, pol, "0"))
        g0["deadline_variance"] = list(w["variance"])
        g1 = dict({"name": "G1", "graph": graph_nodes(env, "fork-slo", "g1")}, **policy_fields(env, w.get("second_policy", pol), "1"))
        graphs = [g0, g1]
    else:
        g = dict({"name": "G0", "graph": graph_nodes(env, shape)}, **policy_fields(env, pol, fixed_loop=w.get("fixed_loop")))
        if w["variance"] is not None:
            g["deadline_variance"] = list(w["variance"])
        graphs = [g]
    tree = {"profiles": profs, "graphs": graphs}
    flags = None
    horizon = None
    rep = w.get("replication", 1)
    if w.get("flags"):
        horizon = env.int("horizon", 0, 2 ** 22)
        flags = types.SimpleNamespace(log_dir=None, log_file_name=None, log_level="debug", override_poisson_arrival_rate=0.0, override_gamma_coefficient=0.0,
                                      override_arrival_period=0, override_num_invocation=0, unique_work_profiles=False, replication_factor=rep,
                                      override_slo=env.int("override_slo", 0, 2 ** 20) if w.get("override_slo") else 0,
                                      loop_timeout=horizon, min_deadline_variance=0, max_deadline_variance=0, min_deadline=env.int("min_deadline", 0, 2 ** 21),
                                      max_deadline=env.int("max_deadline", 0, 2 ** 22), use_branch_predicated_deadlines=False, resolve_conditionals_at_submission=False,
                                      decompose_deadlines=False)
        env.assume(flags.min_deadline <= flags.max_deadline)
    if any(g["release_policy"] == "periodic" for g in graphs):
        # finite unrolling: at most 4 periods fit before the horizon
        if horizon is None:
            env.assume(False)
        for g in graphs:
            if g["release_policy"] == "periodic":
                env.assume(horizon <= g.get("start", 0) + 4 * g["period"])
    ld_mod.open = lambda *a, **k: _FakeFile()
    ld_mod.json = _FakeJson(tree)
    loader = WorkloadLoader("workload.json", _flags=flags)
    wlk = loader.workload
    # ---------------- description -> JobGraphs
    for g in graphs:
        names = [g["name"]] if rep == 1 else [f"{g['name']}_{i}" for i in range(1, rep + 1)]
        for jgname in names:
            jg = wlk.get_job_graph(jgname)
            env.require("C19:jobs-and-edges", jg is not None, jgname)
            if jg is None:
                continue
            jobs = {j.name: j for j in jg.get_nodes()}
            env.require("C19:jobs-and-edges", sorted(jobs) == sorted(n["name"] for n in g["graph"]), jgname)
            for n in g["graph"]:
                j = jobs.get(n["name"])
                if j is None:
                    continue
                env.require("C19:jobs-and-edges", [c.name for c in jg.get_children(j)] == list(n.get("children", [])), n["name"])
                exp_slo = EventTime(n["slo"], US) if "slo" in n else EventTime.invalid()
                if flags is not None and flags.override_slo > 0:  # the command-line override replaces every per-node slo
                    exp_slo = EventTime(flags.override_slo, US)
                env.require("C19:per-node-fields", sand(j.conditional == bool(n.get("conditional", False)), j.terminal == bool(n.get("terminal", False)),
                                                        j.probability == n.get("probability", 1.0), j.slo == exp_slo), f"{jgname}/{n['name']}: slo {j.slo} expected {exp_slo}")
                pt = [p for p in profs if p["name"] == n["work_profile"]][0]
                env.require("C19:strategies", j.profile.name.startswith(pt["name"]), n["name"])
                got = list(j.profile.execution_strategies)
                env.require("C19:strategies", len(got) == len(pt["execution_strategies"]), n["name"])
                for st, sd in zip(got, pt["execution_strategies"]):
                    conds = [st.batch_size == sd["batch_size"], st.runtime == EventTime(sd["runtime"], US)]
                    res = list(st.resources.resources)
                    conds.append(len(res) == len(sd["resource_requirements"]))
                    for (r, q), (k, qd) in zip(res, sd["resource_requirements"].items()):
                        conds += [r.name == k.split(":")[0], r.id == k.split(":")[1], q == qd]
                    env.require("C19:strategies", sand(*conds), f"{n['name']}")
                if "loading_strategies" in pt:
                    ls = list(j.profile.loading_strategies)
                    env.require("C19:strategies", len(ls) == 1 and bool(ls[0].runtime == EventTime(pt["loading_strategies"][0]["runtime"], US)), n["name"])
            rp = jg.release_policy
            start = g.get("start", 0)
            conds = [rp.start_time == EventTime(start, US)]
            if g["release_policy"] in ("fixed", "periodic"):
                conds.append(rp._period == EventTime(g["period"], US))
            if "invocations" in g:
                conds.append(rp._fixed_invocation_nums == g["invocations"])
            if g["release_policy"] == "closed_loop":
                conds.append(rp._concurrency == g["concurrency"])
            env.require("C19:release-policy-parameters", sand(*conds), jgname)
            var = tuple(g["deadline_variance"]) if "deadline_variance" in g else (0, 0)
            env.require("C19:release-policy-parameters", jg._deadline_variance == var, f"{jgname}: variance {jg._deadline_variance} expected {var}")
            # ---------------- releases and instantiation
            tgs = [tg for name, tg in wlk.task_graphs.items() if name.startswith(jgname + "@")]
            rels = [tg.release_time.time for tg in tgs]
            N = g.get("invocations")
            p = g["release_policy"]
            if p == "fixed":
                env.require("C19:fixed-releases", sand(len(rels) == N, *[rels[i] == start + i * g["period"] for i in range(min(N, len(rels)))]), jgname)
            elif p == "periodic":
                conds = [rels[i] == start + i * g["period"] for i in range(len(rels))]
                conds.append(start + len(rels) * g["period"] >= horizon)  # the next one would be at or past the horizon
                conds += [r < horizon for r in rels]
                env.require("C19:periodic-releases", sand(*conds), f"{jgname}: {len(rels)} releases")
            elif p in ("poisson", "gamma"):
                conds = [len(rels) == N]
                if rels:
                    conds.append(rels[0] == start)
                conds += [a <= b for a, b in zip(rels, rels[1:])]
                env.require(f"C19:{p}-releases", sand(*conds), jgname)
            elif p == "closed_loop":
                conc = g["concurrency"]
                env.require("C19:closed-loop", sand(len(rels) == min(conc, N), *[r == start for r in rels]), f"{jgname}: initial wave {len(rels)} for concurrency {conc}, N {N}")
                # drive the loop: finish graphs one at a time; never more than `conc` in flight, N in total
                total, inflight = len(tgs), list(tgs)
                steps = 0
                while inflight and steps < 8:
                    steps += 1
                    tg = inflight.pop(0)
                    before = set(wlk.task_graphs)
                    wlk.notify_task_graph_completion(tg, EventTime(10 * steps, US) + EventTime(start, US))
                    new = [wlk.task_graphs[k] for k in wlk.task_graphs if k not in before]
                    inflight += new
                    total += len(new)
                    env.require("C19:closed-loop", len(inflight) <= conc, f"in flight {len(inflight)} > {conc}")
                env.require("C19:closed-loop", total == N, f"{jgname}: {total} graphs generated for N={N}")
                tgs = [tg for name, tg in wlk.task_graphs.items() if name.startswith(jgname + "@")]
            # fresh isomorphic copies
            seen = set()
            for tg in tgs:
                nodes = {t.name: t for t in tg.get_nodes()}
                conds = [sorted(nodes) == sorted(jobs)]
                for n in g["graph"]:
                    t = nodes.get(n["name"])
                    if t is None:
                        continue
                    conds.append([c.name for c in tg.get_children(t)] == list(n.get("children", [])))
                    conds.append(t.profile is jobs[n["name"]].profile)
                    conds.append(id(t) not in seen)
                    seen.add(id(t))
                env.require("C19:fresh-isomorphic-copies", sand(*conds), tg.name)
            # deadline = release + critical path (or SLOs on it) stretched within variance and bounds
            cp = jg.completion_time.time
            if w["shape"] == "fork" and jgname == names[0]:
                # independent critical path: the heaviest source-to-sink path, every job weighed by its slowest strategy
                slow = {}
                for pr in profs:
                    rts = [st["runtime"] for st in pr["execution_strategies"]]
                    m_ = rts[0]
                    for r_ in rts[1:]:
                        m_ = pysym.site(r_ > m_, r_, m_)
                    slow[pr["name"]] = m_
                by = {n["name"]: n for n in g["graph"]}
                pa = slow[by["A"]["work_profile"]] + slow[by["B"]["work_profile"]]
                pb = slow[by["A"]["work_profile"]] + slow[by["C"]["work_profile"]]
                env.require("C19:critical-path-is-the-heaviest-path", cp == pysym.site(pa > pb, pa, pb), f"{jgname}: completion time {cp}")
            vmin, vmax = var
            lo_b, hi_b = (flags.min_deadline, flags.max_deadline) if flags else (0, sys.maxsize)
            for tg in (tgs[:2] + [x for x in tgs[-2:] if x not in tgs[:2]]):  # the first ones and (closed loop) the ones released on a completion
                for t in tg.get_nodes():
                    d = t.deadline.time - tg.release_time.time
                    lo = cp + cp * vmin / 100
                    hi = cp + cp * vmax / 100
                    # clamp of the stretch (not of the sum) into [min_deadline, max_deadline], then rounding: +-1 slack
                    lo2 = cp + pysym.site(cp * vmin / 100 < lo_b, lo_b, pysym.site(cp * vmin / 100 > hi_b, hi_b, cp * vmin / 100))
                    hi2 = cp + pysym.site(cp * vmax / 100 > hi_b, hi_b, pysym.site(cp * vmax / 100 < lo_b, lo_b, cp * vmax / 100))
                    env.require("C19:deadline-within-variance", sand(d >= lo2 - 1, d <= hi2 + 1), f"{tg.name}/{t.name}")
    env.observe("graphs", sorted(wlk.task_graphs))


if __name__ == "__main__":
    import checks.c19 as _m

    sys.exit(harness.main(_m))
