"""C06 -- task lifecycle is a legal state machine; cancellation is closed downstream."""
import sys

from vlib import harness, simworld
from vlib import worlds as w
from vlib.simcheck import RT3, SIM_ASSUMPTIONS, SIM_OUTSIDE, small

ID = "C06"
ORACLES = ["C06"]
ANCHORS = [("workload/tasks.py", 150, 462), ("workload/tasks.py", 787, 857), ("simulator.py", 1049, 1080), ("simulator.py", 1309, 1330),
           ("simulator.py", 725, 895)]
LIMITS = {"samples_per_job": 1, "validate_per_job": 1}
CRASH_IS_VIOLATION = False
ASSUMPTIONS = SIM_ASSUMPTIONS
OUTSIDE = SIM_OUTSIDE
BOUNDS = "chains, forks, joins, skip-diamond, diamond, 2/3-way conditionals; deadline enforcement (EDF/FIFO), drop_skipped_tasks, solver-driven cancellation, skipping, plan-ahead and re-planning"
EXPLANATION = ("real Simulator.simulate() on all feasible paths; every Task.release/schedule/unschedule/start/finish/cancel call is checked against the allowed transition relation; "
               "at the end Dead = least fixpoint of {cancelled} U {non-join with a dead parent} U {join with all parents dead} must be exactly reported CANCELLED, never started, "
               "each with a TASK_CANCEL event; TASK_GRAPH_FINISHED row iff all sinks COMPLETED")
REQUIRED_LABELS = ["C06:legal-transition", "C06:dead-task-reported-cancelled", "C06:dead-task-never-started", "C06:cancelled-task-has-cancel-event",
                   "C06:graph-finished-iff-sinks-complete", "C06:unschedule-returns-to-prior-state"]


def worlds(tier):
    hv = {"max_delta": 2}
    ws = [
        w.W("chain2-EDF-enforce", w.chain(2), w.C1, "EDF", enforce_deadlines=True, split=5),
        w.W("fork-FIFO-enforce", w.fork(), w.C1, "FIFO", enforce_deadlines=True, split=6, weight=30),
        w.W("join-EDF-enforce-per-task-deadlines", w.join(release=0), w.C2, "EDF", enforce_deadlines=True, split=6, weight=30,
            tasks={"A": {"deadline": "sym"}, "B": {"deadline": "sym"}}),
        w.W("skipdiamond-EDF-enforce-per-task-deadlines", w.skipdiamond(release=0), w.C2, "EDF", enforce_deadlines=True, split=6, weight=30,
            tasks={"A": {"deadline": "sym"}, "C": {"deadline": "sym"}}),
        w.W("indep2-EDF-enforce", w.indep(2), w.C1, "EDF", enforce_deadlines=True, split=6, weight=40),
        w.W("wshape-EDF-enforce-per-task-deadlines", w.wshape(release=0), w.C2, "EDF", enforce_deadlines=True, split=7, weight=60,
            tasks=dict(small(("X", "W", "Y", "Z")), **{"X": {"deadline": "sym", "strategies": [{"rt": RT3}]}, "W": {"deadline": "sym", "strategies": [{"rt": RT3}]}})),
        w.W("cond2-EDF", w.fixed_times(w.cond2()), w.C1, "EDF", split=6, weight=30),
        w.W("cond2-EDF-enforce-cancelled-at-the-conditional", w.cond2(release=0), w.C1, "EDF", enforce_deadlines=True, split=6, weight=30, tasks=small(("C", "a", "b", "J"))),
        w.W("cond3-EDF", w.fixed_times(w.cond3()), w.C1, "EDF", split=7, weight=40, tasks=small(("C", "a", "b", "c", "J"))),
        w.W("chain2-havoc-cancel", w.fixed_times(w.chain(2)), w.C1, "HAVOC", split=6, havoc=dict(hv, max_cancels=1, release_taskgraphs=True), tasks=small(("T0", "T1"))),
        w.W("fork-havoc-cancel", w.fixed_times(w.fork()), w.C2, "HAVOC", split=8, havoc=dict(hv, max_cancels=1, max_unplaced=0, future=False, first_pool_only=True),
            tasks=small(("A", "B", "C")), weight=40),
        w.W("lone-sink-cancelled-while-a-planned-ahead-task-with-a-descendant-waits-for-its-parent-havoc",
            [w.G("G0", ["X", "P", "T", "D"], [("P", "T"), ("T", "D")], release=0, deadline=10 ** 6)], w.C2, "HAVOC", split=9,
            havoc=dict(hv, max_cancels=1, release_taskgraphs=True, max_unplaced=1, first_pool_only=True,
                       per_task={"P": {"cancel": False, "max_unplaced": 0, "future": False}, "T": {"cancel": False}, "D": {"cancel": False, "max_unplaced": 1}, "X": {"max_unplaced": 1}}),
            tasks={"X": {"strategies": [{"rt": 2}]}, "P": {"strategies": [{"rt": 3}]}, "T": {"strategies": [{"rt": 1}]}, "D": {"strategies": [{"rt": 1}]}}, weight=80),
        w.W("chain2-havoc-drop-skipped", w.fixed_times(w.chain(2)), w.C1, "HAVOC", split=6, drop_skipped=True, havoc=dict(hv, release_taskgraphs=True), tasks=small(("T0", "T1"))),
        w.W("one-task-havoc-plan-replan-skip", w.fixed_times(w.indep(1)), w.C1, "HAVOC", split=6, havoc=dict(hv, retract=True, max_replans=2, max_unplaced=2, max_future=2),
            tasks=small(("T0",))),
        w.W("replan-then-skip-with-two-later-arrivals-havoc",
            [w.G("G0", ["T0"], [], release=0, deadline=10 ** 6), w.G("G1", ["T1"], [], release=["sym", 0, 3], deadline=10 ** 6),
             w.G("G2", ["T2"], [], release=["sym", 0, 3], deadline=10 ** 6)], w.C2, "HAVOC", split=8,
            havoc=dict(hv, retract=True, max_replans=2, max_unplaced=2, max_future=2,
                       per_task={"T1": {"future": False, "max_unplaced": 0, "max_replans": 0}, "T2": {"future": False, "max_unplaced": 0, "max_replans": 0}}),
            tasks=small(("T0", "T1", "T2")), weight=60),
        w.W("chain2-havoc-retract-skip", w.fixed_times(w.chain(2)), w.C1, "HAVOC", split=8, havoc=dict(hv, retract=True, release_taskgraphs=True, max_replans=1),
            tasks=small(("T0", "T1")), weight=40),
    ]
    if tier == "thorough":
        ws += [
            w.W("diamond-EDF-enforce-per-task-deadlines", w.diamond(release=0), w.C2, "EDF", enforce_deadlines=True, split=8, weight=300,
                tasks={"A": {"deadline": "sym"}, "B": {"deadline": "sym"}, "C": {"deadline": "sym"}}),
            w.W("cond-uneven-FIFO", w.fixed_times(w.cond_uneven()), w.C2, "FIFO", split=7, weight=60),
            w.W("cond-tail-EDF-enforce", w.cond_tail(release=0), w.C1, "EDF", enforce_deadlines=True, split=8, weight=200, tasks=small(("C", "a", "b", "J", "Z"))),
            w.W("join-havoc-cancel-planahead", w.fixed_times(w.join()), w.C2, "HAVOC", split=9, havoc=dict(hv, max_cancels=1, release_taskgraphs=True, max_unplaced=0, first_pool_only=True),
                tasks=small(("A", "B", "C")), weight=300),
            w.W("skipdiamond-havoc-cancel", w.fixed_times(w.skipdiamond()), w.C2, "HAVOC", split=9, havoc=dict(hv, max_cancels=2, max_unplaced=0, future=False, first_pool_only=True),
                tasks=small(("A", "B", "C")), weight=300),
            w.W("diamond-havoc-cancel-release_taskgraphs", w.fixed_times(w.diamond()), w.C2, "HAVOC", split=10,
                havoc=dict(hv, max_cancels=1, release_taskgraphs=True, max_unplaced=0, first_pool_only=True, future=False), tasks=small(("A", "B", "C", "D")), weight=500),
            w.W("cond3-havoc-cancel", w.fixed_times(w.cond3()), w.C2, "HAVOC", split=10,
                havoc=dict(hv, max_cancels=1, max_unplaced=0, first_pool_only=True, future=False), tasks=small(("C", "a", "b", "c", "J")), weight=500),
            w.W("cond-nested-EDF-enforce", w.cond_nested(release=0), w.C2, "EDF", enforce_deadlines=True, split=9, weight=400, tasks=small(("C", "a", "D", "c", "d", "K", "J"))),
            w.W("fork-EDF-enforce-symbolic-times", w.fork(), w.C2, "EDF", enforce_deadlines=True, split=9, weight=400),
            w.W("cond2-havoc-cancel-release_taskgraphs", w.fixed_times(w.cond2()), w.C2, "HAVOC", split=9,
                havoc=dict(hv, max_cancels=1, release_taskgraphs=True, max_unplaced=0, first_pool_only=True, future=False), tasks=small(("C", "a", "b", "J")), weight=400),
            w.W("fork-havoc-drop-skipped", w.fixed_times(w.fork()), w.C2, "HAVOC", split=8, drop_skipped=True, havoc=dict(hv, future=False, first_pool_only=True),
                tasks=small(("A", "B", "C")), weight=100),
        ]
    return ws


def run(env, world):
    simworld.run(env, world, ORACLES)


if __name__ == "__main__":
    import checks.c06 as _m

    sys.exit(harness.main(_m))
